import random, itertools
from ref import Ref, subspace, render
from biobalm import SuccessionDiagram
rng=random.Random(11)
found=0
for it in range(300000):
    n=3
    nets=[(list(range(n)), [rng.randint(0,1) for _ in range(8)]) for i in range(n)]
    R=Ref(nets)
    atts=R.attractors()
    if len(atts)<2: continue
    traps=R.all_traps()
    if len(traps)!=1: continue
    found+=1
    rules=render(nets)
    sd=SuccessionDiagram.from_rules(rules)
    nf=sd.node_percolated_nfvs(0,compute=True)
    sd.build()
    seeds=sd.expanded_attractor_seeds()
    tot=sum(len(v) for v in seeds.values())
    print("n3 net with single trap & atts",len(atts),"nfvs",nf,"seeds",tot, "OK" if tot==len(atts) else "MISMATCH", repr(rules) if tot!=len(atts) else "")
    if found>=8: break
print("found",found,"after",it)
