import sys, time
from biobalm import SuccessionDiagram
mon = sys.monitoring
TOOL = 3
mon.use_tool_id(TOOL, "simclock")
class Budget(Exception): pass
count = 0; limit = 200000
PREFIX = "/repo/biobalm/"
def on_jump(code, off, dest):
    global count
    if not code.co_filename.startswith(PREFIX):
        return mon.DISABLE
    if dest < off:
        count += 1
        if count > limit:
            raise Budget(f"{code.co_filename}:{code.co_name}")
def on_branch(code, off, dest):
    global count
    if not code.co_filename.startswith(PREFIX):
        return mon.DISABLE
    if dest < off:
        count += 1
mon.register_callback(TOOL, mon.events.JUMP, on_jump)
mon.register_callback(TOOL, mon.events.BRANCH, on_branch)
mon.set_events(TOOL, mon.events.JUMP | mon.events.BRANCH)
rules = 'v0, (!v4 & !v2 & !v0) | (!v4 & v2 & v0) | (v4 & v2 & v0)\nv1, (v3 & !v4 & !v0) | (!v3 & v4 & !v0) | (v3 & !v4 & v0)\nv2, (!v2 & !v0 & !v4) | (v2 & v0 & !v4) | (v2 & !v0 & v4)\nv3, (v0 & !v3 & !v4) | (v0 & v3 & !v4) | (!v0 & !v3 & v4) | (v0 & !v3 & v4) | (v0 & v3 & v4)\nv4, (!v4 & v0 & !v3) | (v4 & v0 & !v3) | (!v4 & !v0 & v3)\nv5, (!v2 & !v3 & !v0) | (!v2 & v3 & !v0) | (v2 & v3 & v0)'
sd = SuccessionDiagram.from_rules(rules)
t=time.time()
try:
    sd.build()
    print("built", count)
except Budget as e:
    print("BUDGET", e, count, round(time.time()-t,2))
# after exception, is sd still usable?
count=0
print(len(sd), [sd.node_data(i)["expanded"] for i in sd.node_ids()])
# overhead measurement on a normal model
import glob
count=0; limit=10**9
t=time.time()
sd2 = SuccessionDiagram.from_rules("A, B\nB, A & C\nC, !A | B"); sd2.build()
print("small build count", count, time.time()-t)
