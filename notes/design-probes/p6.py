import sys
from biobalm import SuccessionDiagram
import biobalm._sd_attractors.attractor_symbolic as AS
rules = 'v0, (!v4 & !v2 & !v0) | (!v4 & v2 & v0) | (v4 & v2 & v0)\nv1, (v3 & !v4 & !v0) | (!v3 & v4 & !v0) | (v3 & !v4 & v0)\nv2, (!v2 & !v0 & !v4) | (v2 & v0 & !v4) | (v2 & !v0 & v4)\nv3, (v0 & !v3 & !v4) | (v0 & v3 & !v4) | (!v0 & !v3 & v4) | (v0 & !v3 & v4) | (v0 & v3 & v4)\nv4, (!v4 & v0 & !v3) | (v4 & v0 & !v3) | (!v4 & !v0 & v3)\nv5, (!v2 & !v3 & !v0) | (!v2 & v3 & !v0) | (v2 & v3 & v0)'
sd = SuccessionDiagram.from_rules(rules)
sd.expand_block()
for i in sd.node_ids():
    print(i, sd.node_data(i)["space"], sd.node_data(i)["expanded"], list(sd.dag.successors(i)))
print("cands root", sd.node_attractor_candidates(0, compute=True))
print("nfvs", sd.node_percolated_nfvs(0))
# trace the loop a bit
n=[0]
def tracer(frame, event, arg):
    if frame.f_code.co_name=="symbolic_attractor_test":
        def local(frame, event, arg):
            if event=="line" and frame.f_lineno==319:
                n[0]+=1
                if n[0] in (5,50):
                    L=frame.f_locals
                    print("iter",n[0],"saturated",L["saturated_vars"],"conflict",L["conflict_vars"],"other",L["other_vars"],"reach",L["reach_set"],"avoid",L["avoid"])
                if n[0]>60: raise SystemExit
            return local
        return local
sys.settrace(tracer)
sd.node_attractor_seeds(0, compute=True)
