import sys
from biobalm import SuccessionDiagram
# Probe B: stale seeds after skip_to_minimal
sd = SuccessionDiagram.from_rules("A, A\nB, B")
print("seeds root unexpanded:", sd.node_attractor_seeds(0, compute=True))
sd.skip_to_minimal(0)
print("after skip: expanded", sd.node_data(0)["expanded"], "succ", sd.node_successors(0))
print("root seeds cached:", sd.node_attractor_seeds(0, compute=False))
tot = sum(len(sd.node_attractor_seeds(i, compute=True)) for i in sd.node_ids())
print("total seeds over nodes:", tot, "(true attractors: 4)")

# Probe C: threshold=1 with empty NFVS, unexpanded root
cfg = SuccessionDiagram.default_config(); cfg["retained_set_optimization_threshold"]=1
sd = SuccessionDiagram.from_rules("A, A\nB, A", config=cfg)
print("thr=1 candidates unexpanded root:", sd.node_attractor_candidates(0, compute=True))
cfg = SuccessionDiagram.default_config(); cfg["attractor_candidates_limit"]=0
sd = SuccessionDiagram.from_rules("A, A\nB, A", config=cfg)
try:
    print("limit=0 candidates (greedy off):", sd.node_attractor_candidates(0, compute=True, greedy_asp_minification=False))
except RuntimeError as e: print("RuntimeError", e)

# Probe D: all vars in NFVS
sd = SuccessionDiagram.from_rules("A, !A & B | A & !B\nB, !B & A | B & !A")
print("nfvs", sd.node_percolated_nfvs(0, compute=True))
print("cands", sd.node_attractor_candidates(0, compute=True))
