import random, signal, pickle, sys, json
from ref import rand_tt_net, render
from biobalm import SuccessionDiagram
from biobalm.control import succession_control
class TO(Exception): pass
def h(s,f): raise TO()
signal.signal(signal.SIGALRM,h)
def canon(sp): return tuple(sorted(sp.items()))
def vs_states(sd, vs):
    out=[]
    for v in vs.items():
        d=v.to_dict() if hasattr(v,"to_dict") else dict(v)
        out.append(tuple(sorted((sd.network.get_variable_name(k), int(x)) for k,x in d.items())))
    return tuple(sorted(out))
def dump(sd):
    nodes=[]
    for i in sd.node_ids():
        d=sd.node_data(i)
        nodes.append((i, canon(d["space"]), d["expanded"], bool(d["skipped"]), d["depth"],
            None if d["attractor_seeds"] is None else tuple(canon(s) for s in d["attractor_seeds"]),
            None if d["attractor_candidates"] is None else tuple(canon(s) for s in d["attractor_candidates"]),
            None if d["attractor_sets"] is None else tuple(vs_states(sd,s) for s in d["attractor_sets"]),
            tuple(sorted((s, canon(sd.edge_stable_motif(i,s)), tuple(sorted(canon(m) for m in sd.edge_all_stable_motifs(i,s)))) for s in sd.dag.successors(i)))))
    return nodes
def gen_hist(rng, n):
    H=[]
    for _ in range(rng.randint(2,8)):
        op=rng.choice(["one","bfs","dfs","min","attr","block","scc","skipmin","skiprem","cand","seeds","sets","control","target"])
        H.append((op, rng.random(), rng.choice([None,1,2,3,5]), rng.random()<0.5, {f"v{i}":rng.randint(0,1) for i in rng.sample(range(n), rng.randint(0,n))}))
    return H
def apply(sd, step):
    op,r,lim,flag,t=step
    ids=list(sd.node_ids()); nid=ids[int(r*len(ids))]
    if op=="one": return sorted(sd.node_successors(nid, compute=True))
    if op=="bfs": return sd.expand_bfs(nid, None, lim)
    if op=="dfs": return sd.expand_dfs(nid, None, lim)
    if op=="min": return sd.expand_minimal_spaces(nid, lim, flag)
    if op=="attr": return sd.expand_attractor_seeds(lim)
    if op=="block": return sd.expand_block(flag, lim, r<0.5)
    if op=="scc": return sd.expand_scc(flag)
    if op=="skipmin": return sd.skip_to_minimal(nid)
    if op=="skiprem": return sd.skip_remaining()
    if op=="cand": return [canon(s) for s in sd.node_attractor_candidates(nid, compute=True)]
    if op=="seeds": return [canon(s) for s in sd.node_attractor_seeds(nid, compute=True)]
    if op=="sets": return [vs_states(sd,s) for s in sd.node_attractor_sets(nid, compute=True)]
    if op=="control": return sorted(repr((i.succession,i.control,i.successful)) for i in succession_control(sd, t, "all" if flag else "internal", successful_only=False))
    if op=="target": return sd.expand_to_target(t, lim)
rng=random.Random(int(sys.argv[1])); bad=0; runs=0; pf=0
for it in range(int(sys.argv[2])):
    n=rng.randint(2,6); nets=rand_tt_net(rng,n,p_input=0.15); rules=render(nets); H=gen_hist(rng,n)
    fault_at={i:rng.choice(["pickle","reclaim"]) for i in range(len(H)) if rng.random()<0.35}
    A=SuccessionDiagram.from_rules(rules); B=SuccessionDiagram.from_rules(rules)
    signal.alarm(30); runs+=1
    try:
        for i,step in enumerate(H):
            if i in fault_at:
                if fault_at[i]=="pickle":
                    try: A=pickle.loads(pickle.dumps(A))
                    except Exception as e:
                        pf+=1
                        if pf<=3: print("PICKLE FAIL", repr(e)[:200], repr(rules), H[:i]); 
                        raise TO()
                else: A.reclaim_node_data()
            ra=rb=None
            try: ra=("ok",apply(A,step))
            except TO: raise
            except Exception as e: ra=("exc",type(e).__name__, str(e)[:60])
            try: rb=("ok",apply(B,step))
            except TO: raise
            except Exception as e: rb=("exc",type(e).__name__, str(e)[:60])
            da,db=dump(A),dump(B)
            if ra!=rb or da!=db:
                bad+=1
                if bad<=4:
                    print("DIFF at",i,step[0],"faults",fault_at, repr(rules), [s[0] for s in H[:i+1]])
                    print("  ra",str(ra)[:300]); print("  rb",str(rb)[:300])
                    for x,y in zip(da,db):
                        if x!=y: print("  node",str(x)[:300],"\n    vs",str(y)[:300]); break
                break
    except TO: pass
    signal.alarm(0)
print("runs",runs,"bad",bad,"picklefail",pf)
