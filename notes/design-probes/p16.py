import random, pickle, signal
from biodivine_aeon import BooleanNetwork
from ref import rand_tt_net, render
from biobalm import SuccessionDiagram
class TO(Exception): pass
def h(s,f): raise TO()
signal.signal(signal.SIGALRM,h)
def reorder(bn, order):
    new = BooleanNetwork(order)
    for v in bn.variable_names():
        fn = bn.get_update_function(v)
        for r in bn.predecessors(v):
            new.ensure_regulation({"source": bn.get_variable_name(r), "target": v, "essential": True, "sign": None})
    for v in bn.variable_names():
        fn = bn.get_update_function(v)
        if fn is not None:
            new.set_update_function(v, str(fn))
    return new
def canon(sp): return tuple(sorted(sp.items()))
rng=random.Random(3); bad=0
for it in range(400):
    n=rng.randint(3,6); nets=rand_tt_net(rng,n,p_input=0.1); rules=render(nets)
    bn=BooleanNetwork.from_bnet(rules).infer_valid_graph()
    order=bn.variable_names(); rng.shuffle(order)
    try: bn2=reorder(bn, order)
    except Exception as e: print("reorder fail", e); continue
    lim=rng.choice([2,3,4,5])
    signal.alarm(20)
    try:
        A=SuccessionDiagram(bn2); B=SuccessionDiagram(bn2)
        A.expand_bfs(size_limit=lim); B.expand_bfs(size_limit=lim)
        A=pickle.loads(pickle.dumps(A))
        A.expand_bfs(); B.expand_bfs()
        sa=sorted(canon(A.node_data(i)["space"]) for i in A.node_ids()); sb=sorted(canon(B.node_data(i)["space"]) for i in B.node_ids())
        fa=[A.find_node(A.node_data(i)["space"]) for i in A.node_ids()]
        if sa!=sb or len(set(sa))!=len(sa) or fa!=list(A.node_ids()):
            bad+=1
            if bad<=3: print("F9", order, repr(rules), "lenA",len(A),"lenB",len(B),"dups",len(sa)-len(set(sa)), "find_node ok", fa==list(A.node_ids()))
    except TO: pass
    signal.alarm(0)
print("bad",bad)
