import itertools, random, time
def rand_tt_net(rng, n, kmax=3, p_input=0.1, p_const=0.05):
    nets=[]
    for i in range(n):
        r=rng.random()
        if r<p_input: nets.append(([i],[0,1])); continue
        if r<p_input+p_const: nets.append(([],[rng.randint(0,1)])); continue
        k=rng.randint(1,min(kmax,n)); regs=sorted(rng.sample(range(n),k))
        tt=[rng.randint(0,1) for _ in range(2**k)]
        nets.append((regs,tt))
    return nets
def render(nets):
    lines=[]
    for i,(regs,tt) in enumerate(nets):
        terms=[]
        for idx,val in enumerate(tt):
            if val:
                lits=[(f"v{r}" if (idx>>j)&1 else f"!v{r}") for j,r in enumerate(regs)]
                terms.append("("+" & ".join(lits)+")" if lits else "true")
        f = " | ".join(terms) if terms else "false"
        if regs==[] : f = "true" if tt[0] else "false"
        lines.append(f"v{i}, {f}")
    return "\n".join(lines)
class Ref:
    def __init__(self, nets):
        self.n=n=len(nets); self.N=1<<n
        self.f=[[0]*self.N for _ in range(n)]
        for i,(regs,tt) in enumerate(nets):
            for s in range(self.N):
                idx=0
                for j,r in enumerate(regs):
                    if (s>>r)&1: idx|=1<<j
                self.f[i][s]=tt[idx]
        self.succ=[[s^(1<<i) for i in range(n) if self.f[i][s]!=((s>>i)&1)] for s in range(self.N)]
    def attractors(self):
        # Tarjan iterative
        N=self.N; index=[-1]*N; low=[0]*N; on=[False]*N; st=[]; comp=[-1]*N; idx=0; comps=[]
        for root in range(N):
            if index[root]!=-1: continue
            work=[(root,0)]
            while work:
                v,pi=work.pop()
                if pi==0:
                    index[v]=low[v]=idx; idx+=1; st.append(v); on[v]=True
                rec=False
                for k in range(pi,len(self.succ[v])):
                    w=self.succ[v][k]
                    if index[w]==-1:
                        work.append((v,k+1)); work.append((w,0)); rec=True; break
                    elif on[w]: low[v]=min(low[v],index[w])
                if rec: continue
                if low[v]==index[v]:
                    c=[]
                    while True:
                        w=st.pop(); on[w]=False; comp[w]=len(comps); c.append(w)
                        if w==v: break
                    comps.append(c)
                if work:
                    u=work[-1][0]; low[u]=min(low[u],low[v])
        res=[]
        for ci,c in enumerate(comps):
            if all(comp[w]==ci for v in c for w in self.succ[v]): res.append(frozenset(c))
        return res
    def states(self, mask, val):
        free=[i for i in range(self.n) if not (mask>>i)&1]
        for bits in range(1<<len(free)):
            s=val
            for j,i in enumerate(free):
                if (bits>>j)&1: s|=1<<i
            yield s
    def is_trap(self, mask, val):
        fixed=[i for i in range(self.n) if (mask>>i)&1]
        for s in self.states(mask,val):
            for i in fixed:
                if self.f[i][s]!=((val>>i)&1): return False
        return True
    def all_traps(self):
        res=[]
        for assign in itertools.product((0,1,2), repeat=self.n):
            mask=0; val=0
            for i,a in enumerate(assign):
                if a<2: mask|=1<<i; val|=a<<i
            if self.is_trap(mask,val): res.append((mask,val))
        return res
def subspace(a,b): # a subset of b
    return (a[0]&b[0])==b[0] and (a[1]&b[0])==b[1]
if __name__=="__main__":
    rng=random.Random(3); t=time.time(); stats={"maa":0,"multi":0,"nets":0}
    for it in range(2000):
        n=rng.randint(3,6); nets=rand_tt_net(rng,n); R=Ref(nets)
        atts=R.attractors(); traps=R.all_traps()
        mins=[t1 for t1 in traps if not any(t2!=t1 and subspace(t2,t1) for t2 in traps)]
        def inmin(a): 
            return any(all(((s&m[0])==m[1]) for s in a) for m in mins)
        maa=[a for a in atts if not inmin(a)]
        stats["nets"]+=1; stats["maa"]+= (len(maa)>0); stats["multi"]+= (len(atts)>len(mins))
    print(stats, "time", time.time()-t)
