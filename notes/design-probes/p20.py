import random, signal, sys
from ref import rand_tt_net, render, Ref, subspace
from biobalm import SuccessionDiagram
from biobalm.control import succession_control
class TO(Exception): pass
def h(s,f): raise TO()
signal.signal(signal.SIGALRM,h)
def sp2mv(sp):
    m=v=0
    for k,x in sp.items():
        i=int(k[1:]); m|=1<<i; v|=x<<i
    return (m,v)
def perc(R,mv):
    m,v=mv
    ch=True
    while ch:
        ch=False
        for i in range(R.n):
            if (m>>i)&1: continue
            vals=set(R.f[i][s] for s in R.states(m,v))
            if len(vals)==1:
                c=vals.pop(); m|=1<<i; v|=c<<i; ch=True
    return (m,v)
def union(a,b):
    # returns None if inconsistent
    if (a[1]^b[1]) & a[0] & b[0]: return None
    return (a[0]|b[0], a[1]|b[1])
def override_net(nets, o):
    new=[]
    for i,(regs,tt) in enumerate(nets):
        if f"v{i}" in o: new.append(([], [o[f"v{i}"]]))
        else: new.append((regs,tt))
    return new
def gen(rng):
    r=rng.random()
    if r<0.6: return rand_tt_net(rng, rng.randint(2,6), p_input=0.15)
    a=rand_tt_net(rng,3,p_input=0.1,p_const=0); b=rand_tt_net(rng,3,p_input=0.1,p_const=0)
    return a+[([x+3 for x in regs],tt) for regs,tt in b]
rng=random.Random(int(sys.argv[1])); stats={"runs":0,"viol":0,"hang":0,"exc":0,"interv":0,"succ":0,"overrides":0}
for it in range(int(sys.argv[2])):
    nets=gen(rng); n=len(nets); rules=render(nets); R=Ref(nets)
    traps=R.all_traps(); trapset=set(traps); mins=[t for t in traps if not any(u!=t and subspace(u,t) for u in traps)]
    sd=SuccessionDiagram.from_rules(rules); stats["runs"]+=1; hist=[]
    signal.alarm(20)
    try:
        for step in range(rng.randint(0,4)):
            ids=list(sd.node_ids()); nid=rng.choice(ids); lim=rng.choice([None,1,2,3])
            op=rng.choice(["one","bfs","min","skipmin","skiprem","block","scc","dfs"])
            if op=="one": sd.node_successors(nid,compute=True)
            elif op=="bfs": sd.expand_bfs(nid,None,lim)
            elif op=="dfs": sd.expand_dfs(nid,None,lim)
            elif op=="min": sd.expand_minimal_spaces(nid,lim,rng.random()<0.5)
            elif op=="skipmin": sd.skip_to_minimal(nid)
            elif op=="skiprem": sd.skip_remaining()
            elif op=="block": sd.expand_block(rng.random()<0.5, lim, rng.random()<0.5)
            elif op=="scc": sd.expand_scc(rng.random()<0.5)
            hist.append((op,nid,lim))
        # target
        r=rng.random()
        if r<0.4 and mins:
            m=rng.choice(mins); target={f"v{i}":(m[1]>>i)&1 for i in range(n) if (m[0]>>i)&1}
            # drop some keys
            for k in list(target):
                if rng.random()<0.3: del target[k]
        else:
            target={f"v{i}":rng.randint(0,1) for i in rng.sample(range(n), rng.randint(0,n))}
        strat=rng.choice(["internal","all"]); md=rng.choice([None,None,0,1,2]); forb=set(f"v{i}" for i in range(n) if rng.random()<0.15)
        ivs=succession_control(sd,target,strategy=strat,max_drivers_per_succession_node=md,forbidden_drivers=forb,successful_only=rng.random()<0.5, skip_feedforward_successions=rng.random()<0.3)
        hist.append(("control",target,strat,md,sorted(forb)))
        tmv=sp2mv(target)
        for iv in ivs:
            stats["interv"]+=1
            if iv.successful != all(len(c)>0 for c in iv.control): raise AssertionError(("successful flag",))
            if not iv.successful: continue
            stats["succ"]+=1
            T=perc(R,(0,0))
            for motif,ctrl in zip(iv.succession, iv.control):
                mm=sp2mv(motif)
                S=union(T,mm)
                if S is None: raise AssertionError(("motif inconsistent with previous",motif))
                Tn=perc(R,S)
                if Tn not in trapset: raise AssertionError(("T_i not trap",motif))
                if not subspace(Tn,T): raise AssertionError(("not nested",))
                for o in ctrl:
                    stats["overrides"]+=1
                    if any(k in forb for k in o): raise AssertionError(("forbidden used",o))
                    if md is not None and len(o)>md: raise AssertionError(("too many drivers",o))
                    omv=sp2mv(o); U=union(T,omv)
                    if U is not None:
                        P=perc(R,U)
                        if not subspace(P,mm): raise AssertionError(("LDOI lacks motif",o,motif))
                    # dynamic
                    Ro=Ref(override_net(nets,o)); atts=Ro.attractors()
                    # forward reach from T
                    seen=set(R.states(*T)); stack=list(seen)
                    while stack:
                        s=stack.pop()
                        for w in Ro.succ[s]:
                            if w not in seen: seen.add(w); stack.append(w)
                    for A in atts:
                        if next(iter(A)) in seen:
                            if not all((s&mm[0])==mm[1] for s in A): raise AssertionError(("attractor escapes motif",o,motif))
                T=Tn
            if union(T,tmv) is None: raise AssertionError(("final inconsistent with target",))
            for m in mins:
                if subspace(m,T) and not subspace(m,tmv): raise AssertionError(("min trap outside target",))
    except TO: stats["hang"]+=1
    except AssertionError as e:
        stats["viol"]+=1; k=e.args[0][0]; stats[k]=stats.get(k,0)+1
        if stats[k]<=2: print("VIOL", e.args[0], repr(rules), hist)
    except Exception as e:
        stats["exc"]+=1
        if stats["exc"]<=3: print("EXC", type(e).__name__, str(e)[:200], repr(rules), hist)
    signal.alarm(0)
print(stats)
