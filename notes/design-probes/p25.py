import random, signal, sys, collections
src=open(__import__('os').path.join(__import__('os').path.dirname(__import__('os').path.abspath(__file__)),'p15.py')).read().split("rng=random.Random(int(sys.argv[1])); bad=0")[0]
exec(src)
mon=sys.monitoring; TOOL=3; mon.use_tool_id(TOOL,"clk")
cnt=[0]; LIM=[3_000_000]
class Budget(Exception): pass
PREFIX="/repo/biobalm/"
def cb(code,off,dest):
    if not code.co_filename.startswith(PREFIX): return mon.DISABLE
    if dest<off:
        cnt[0]+=1
        if cnt[0]>LIM[0]: raise Budget(code.co_name)
def cbs(code,off):
    if not code.co_filename.startswith(PREFIX): return mon.DISABLE
    cnt[0]+=1
mon.register_callback(TOOL,mon.events.JUMP,cb); mon.register_callback(TOOL,mon.events.BRANCH,cb); mon.register_callback(TOOL,mon.events.PY_START,cbs)
mon.set_events(TOOL,mon.events.JUMP|mon.events.BRANCH|mon.events.PY_START)
rng=random.Random(int(sys.argv[1])); mx=collections.defaultdict(int); tot=collections.defaultdict(int); num=collections.defaultdict(int); over=collections.Counter(); ratio=collections.defaultdict(float)
for it in range(int(sys.argv[2])):
    n=rng.randint(2,7); nets=rand_tt_net(rng,n,p_input=0.12); rules=render(nets); hist=gen_hist(rng,n)
    cnt[0]=0
    try: A=SuccessionDiagram.from_rules(rules)
    except Exception as e:
        over[('init',type(e).__name__+str(e)[:80])]+=1; continue
    for step in hist:
        cnt[0]=0
        try: apply(A,step)
        except Budget as e: over[(step[0],str(e))]+=1; break
        except Exception as e: over[('opexc',step[0],type(e).__name__)]+=1
        w=cnt[0]; op=step[0]; D=len(A)
        mx[op]=max(mx[op],w); tot[op]+=w; num[op]+=1
        ratio[op]=max(ratio[op], w/(n*(2**n)*(D+1)))
for op in sorted(mx): print(f"{op:8s} n={num[op]:5d} mean={tot[op]//max(1,num[op]):8d} max={mx[op]:9d} max w/(n 2^n (D+1))={ratio[op]:.1f}")
print("over budget:", dict(over))
