import random, signal
from ref import rand_tt_net, render, Ref, subspace
from biobalm import SuccessionDiagram
import biobalm.trappist_core as TC
class TO(Exception): pass
def h(s,f): raise TO()
signal.signal(signal.SIGALRM,h)
RealControl = TC.Control
class Boom: n=0; fail_at=None
def mk(*a,**k):
    Boom.n+=1
    if Boom.fail_at is not None and Boom.n==Boom.fail_at: raise RuntimeError("injected")
    return RealControl(*a,**k)
TC.Control = mk
def union(rng):
    a=rand_tt_net(rng,3,p_input=0,p_const=0); b=rand_tt_net(rng,3,p_input=0,p_const=0)
    b=[([r+3 for r in regs],tt) for regs,tt in b]
    return a+b
def sp2mv(sp):
    m=v=0
    for k,x in sp.items():
        i=int(k[1:]); m|=1<<i; v|=x<<i
    return (m,v)
rng=random.Random(4); found=0
for it in range(400):
    nets=union(rng); rules=render(nets)
    signal.alarm(20)
    try:
        sd=SuccessionDiagram.from_rules(rules); Boom.n=0; Boom.fail_at=None; sd.expand_scc(); total=Boom.n
        R=Ref(nets); traps=R.all_traps(); mins=set(t1 for t1 in traps if not any(t2!=t1 and subspace(t2,t1) for t2 in traps))
        for k in range(1,total+1):
            sd=SuccessionDiagram.from_rules(rules); Boom.n=0; Boom.fail_at=k
            try: sd.expand_scc(); r="noexc"
            except RuntimeError: r="exc"
            Boom.fail_at=None
            inv=[sd.node_data(i)["space"] for i in sd.node_ids() if sd.node_data(i)["expanded"] and sd.dag.out_degree(i)==0 and sp2mv(sd.node_data(i)["space"]) not in mins]
            if inv:
                found+=1
                if found<=3: print("F6", repr(rules), "fail_at",k,"of",total,r, inv[:2])
                break
    except TO: print("hang")
    signal.alarm(0)
print("found",found)
