import random, signal, sys
from ref import rand_tt_net, render, Ref, subspace
from biobalm import SuccessionDiagram
import biobalm.trappist_core as TC
class TO(Exception): pass
def h(s,f): raise TO()
signal.signal(signal.SIGALRM,h)
RealControl=TC.Control
class Boom: n=0; fail_at=None
def mk(*a,**k):
    Boom.n+=1
    if Boom.fail_at is not None and Boom.n==Boom.fail_at: raise RuntimeError("injected")
    return RealControl(*a,**k)
TC.Control=mk
def canon(sp): return tuple(sorted(sp.items()))
def dump(sd):
    nodes={}
    for i in sd.node_ids():
        d=sd.node_data(i)
        nodes[canon(d["space"])]=(d["expanded"], bool(d["skipped"]), tuple(sorted((canon(sd.node_data(s)["space"]), tuple(sorted(canon(m) for m in sd.edge_all_stable_motifs(i,s)))) for s in sd.dag.successors(i))))
    return nodes
def dumpids(sd): return [(i,canon(sd.node_data(i)["space"])) for i in sd.node_ids()]
def gen(rng):
    r=rng.random()
    if r<0.6: return rand_tt_net(rng, rng.randint(3,6), p_input=0.12)
    a=rand_tt_net(rng,3,p_input=0.1,p_const=0); b=rand_tt_net(rng,3,p_input=0.1,p_const=0)
    return a+[([x+3 for x in regs],tt) for regs,tt in b]
def prefix(sd,H):
    for (op,r,lim) in H:
        ids=list(sd.node_ids()); nid=ids[int(r*len(ids))]
        if op=="one": sd.node_successors(nid,compute=True)
        elif op=="bfs": sd.expand_bfs(nid,None,lim)
        elif op=="dfs": sd.expand_dfs(nid,None,lim)
def runop(sd,op,lim,target):
    if op=="bfs": return sd.expand_bfs(size_limit=lim)
    if op=="dfs": return sd.expand_dfs(size_limit=lim)
    if op=="min": return sd.expand_minimal_spaces(size_limit=lim)
    if op=="attr": return sd.expand_attractor_seeds(size_limit=lim)
    if op=="target": return sd.expand_to_target(target,size_limit=lim)
rng=random.Random(int(sys.argv[1])); stats={"runs":0,"viol":0,"hang":0,"exc":0,"limits":0,"faults":0,"iddiff":0}
for it in range(int(sys.argv[2])):
    nets=gen(rng); n=len(nets); rules=render(nets)
    H=[(rng.choice(["one","bfs","dfs"]), rng.random(), rng.choice([1,2,3])) for _ in range(rng.randint(0,2))]
    op=rng.choice(["bfs","dfs","min","attr","target"]); target={f"v{i}":rng.randint(0,1) for i in rng.sample(range(n), rng.randint(0,n))}
    stats["runs"]+=1
    signal.alarm(25)
    try:
        U=SuccessionDiagram.from_rules(rules); prefix(U,H); Boom.n=0; Boom.fail_at=None
        ru=runop(U,op,None,target); K=Boom.n; DU=dump(U); IU=dumpids(U)
        if ru is not True: raise AssertionError(("unlimited returned not True",op))
        for L in range(1,len(U)+1):
            stats["limits"]+=1
            A=SuccessionDiagram.from_rules(rules); prefix(A,H)
            r=runop(A,op,L,target)
            if r is False and not list(A.stub_ids()): raise AssertionError(("False without stubs",op,L))
            if r is True and op in("bfs","dfs") and list(A.stub_ids()): raise AssertionError(("True with stubs",op,L))
            for i in A.node_ids():
                if not A.node_data(i)["expanded"] and A.dag.out_degree(i)>0: raise AssertionError(("stub with succ",op,L))
            r2=runop(A,op,None,target)
            if dump(A)!=DU: raise AssertionError(("resume differs (limit)",op,L, len(A), len(U)))
            if dumpids(A)!=IU: stats["iddiff"]+=1
        for k in range(1,K+1):
            stats["faults"]+=1
            A=SuccessionDiagram.from_rules(rules); prefix(A,H); Boom.n=0; Boom.fail_at=k
            try: runop(A,op,None,target); exc=False
            except RuntimeError: exc=True
            Boom.fail_at=None
            for i in A.node_ids():
                if not A.node_data(i)["expanded"] and A.dag.out_degree(i)>0: raise AssertionError(("stub with succ after fault",op,k))
            runop(A,op,None,target)
            if dump(A)!=DU: raise AssertionError(("resume differs (fault)",op,k,exc))
            if dumpids(A)!=IU: stats["iddiff"]+=1
    except TO: stats["hang"]+=1
    except AssertionError as e:
        stats["viol"]+=1; key=e.args[0][0]+":"+str(e.args[0][1]); stats[key]=stats.get(key,0)+1
        if stats[key]<=2: print("VIOL", e.args[0], repr(rules), H, target)
    except Exception as e:
        stats["exc"]+=1
        if stats["exc"]<=3: print("EXC", type(e).__name__, str(e)[:200], repr(rules), H, op)
    finally: Boom.fail_at=None
    signal.alarm(0)
print(stats)
