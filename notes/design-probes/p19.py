import random, signal, sys
from ref import rand_tt_net, render, Ref, subspace
from biobalm import SuccessionDiagram
class TO(Exception): pass
def h(s,f): raise TO()
signal.signal(signal.SIGALRM,h)
def sp2mv(sp):
    m=v=0
    for k,x in sp.items():
        i=int(k[1:]); m|=1<<i; v|=x<<i
    return (m,v)
def st2int(sp): return sum(x<<int(k[1:]) for k,x in sp.items())
def inside(A,mv): return all((s&mv[0])==mv[1] for s in A)
def own(sd,atts,nid):
    mv=sp2mv(sd.node_data(nid)["space"])
    succ=[sp2mv(sd.node_data(c)["space"]) for c in sd.dag.successors(nid)]
    return [A for A in atts if inside(A,mv) and not any(inside(A,c) for c in succ)]
def gen(rng):
    r=rng.random()
    if r<0.5: return rand_tt_net(rng, rng.randint(2,6), p_input=0.12)
    if r<0.7:
        n=rng.randint(2,4); return [(list(range(n)),[rng.randint(0,1) for _ in range(2**n)]) for _ in range(n)]
    a=rand_tt_net(rng,3,p_input=0.1,p_const=0); b=rand_tt_net(rng,3,p_input=0.1,p_const=0)
    return a+[([x+3 for x in regs],tt) for regs,tt in b]
mode=sys.argv[3]
rng=random.Random(int(sys.argv[1])); stats={"runs":0,"viol":0,"hang":0,"exc":0,"maa_nets":0,"skipnodes":0}
for it in range(int(sys.argv[2])):
    nets=gen(rng); n=len(nets); rules=render(nets); R=Ref(nets); atts=R.attractors()
    traps=R.all_traps(); mins=[t for t in traps if not any(u!=t and subspace(u,t) for u in traps)]
    has_maa=any(not any(inside(A,m) for m in mins) for A in atts); stats["maa_nets"]+=has_maa
    sd=SuccessionDiagram.from_rules(rules); stats["runs"]+=1; hist=[]
    signal.alarm(30)
    try:
        if mode=="c05":
            strat=rng.choice(["bfs","dfs","block","min","none","attr"]); lim=rng.choice([1,2,3,4,6])
            if strat=="bfs": sd.expand_bfs(size_limit=lim)
            elif strat=="dfs": sd.expand_dfs(size_limit=lim)
            elif strat=="block": sd.expand_block(size_limit=lim)
            elif strat=="min": sd.expand_minimal_spaces(size_limit=lim, skip_ignored=rng.random()<0.5)
            elif strat=="attr": sd.expand_attractor_seeds(size_limit=lim)
            hist.append((strat,lim))
            stubs=list(sd.stub_ids()); rng.shuffle(stubs)
            for s in stubs[:rng.randint(0,len(stubs))]:
                if rng.random()<0.3: sd.node_successors(s,compute=True); hist.append(("one",s))
                else: sd.skip_to_minimal(s); hist.append(("skipmin",s))
            if rng.random()<0.8: sd.skip_remaining(); hist.append("skiprem")
            stats["skipnodes"]+=sum(1 for i in sd.node_ids() if sd.node_data(i)["skipped"])
            order=list(sd.node_ids()); rng.shuffle(order); hist.append(("order",order))
            hits=[]
            for nid in order:
                mv=sp2mv(sd.node_data(nid)["space"])
                for s in sd.node_attractor_seeds(nid, compute=True):
                    x=st2int(s); a=[A for A in atts if x in A]
                    if not a or not inside(a[0],mv): raise AssertionError(("seed not in attractor inside node",nid,s))
                    hits.append(a[0])
            if set(hits)!=set(atts): raise AssertionError(("missing attractor",len(set(hits)),len(atts)))
            if not has_maa and len(hits)!=len(atts): raise AssertionError(("duplicates without MAA",len(hits),len(atts)))
        elif mode=="c14":
            for step in range(rng.randint(2,7)):
                ids=list(sd.node_ids()); nid=rng.choice(ids)
                op=rng.choice(["seeds","cand","sets","one","bfs","min","skipmin","skiprem","block","scc","attr","dfs","reclaim"])
                lim=rng.choice([None,1,2,3])
                if op=="seeds": sd.node_attractor_seeds(nid,compute=True)
                elif op=="cand": sd.node_attractor_candidates(nid,compute=True)
                elif op=="sets": sd.node_attractor_sets(nid,compute=True)
                elif op=="one": sd.node_successors(nid,compute=True)
                elif op=="bfs": sd.expand_bfs(nid,None,lim)
                elif op=="dfs": sd.expand_dfs(nid,None,lim)
                elif op=="min": sd.expand_minimal_spaces(nid,lim,rng.random()<0.5)
                elif op=="skipmin": sd.skip_to_minimal(nid)
                elif op=="skiprem": sd.skip_remaining()
                elif op=="block": sd.expand_block(rng.random()<0.5, lim, rng.random()<0.5)
                elif op=="scc": sd.expand_scc(rng.random()<0.5)
                elif op=="attr": sd.expand_attractor_seeds(lim)
                elif op=="reclaim": sd.reclaim_node_data()
                hist.append((op,nid,lim))
                for i in sd.node_ids():
                    d=sd.node_data(i)
                    if d["attractor_seeds"] is not None:
                        o=own(sd,atts,i); seeds=d["attractor_seeds"]
                        hit=[[A for A in atts if st2int(s) in A] for s in seeds]
                        if d["skipped"]:
                            okk=all(hh and hh[0] in o for hh in hit) and len(set(hh[0] for hh in hit))==len(hit)
                        else:
                            okk=all(hh for hh in hit) and sorted(map(sorted,(hh[0] for hh in hit)))==sorted(map(sorted,o))
                        if not okk: raise AssertionError(("stale seeds",op,i,d["skipped"],len(seeds),len(o)))
    except TO: stats["hang"]+=1
    except AssertionError as e:
        stats["viol"]+=1
        key=str(e.args[0][0])+":"+(str(e.args[0][1]) if mode=="c14" else "")
        stats[key]=stats.get(key,0)+1
        if stats[key]<=1: print("VIOL", e.args[0], repr(rules), hist)
    except Exception as e:
        stats["exc"]+=1
        if stats["exc"]<=3: print("EXC", type(e).__name__, str(e)[:150], repr(rules), hist)
    signal.alarm(0)
print(stats)
