import random, signal, sys, hashlib, importlib.util
src=open(__import__('os').path.join(__import__('os').path.dirname(__import__('os').path.abspath(__file__)),'p15.py')).read().split("rng=random.Random(int(sys.argv[1])); bad=0")[0]
exec(src)
rng=random.Random(int(sys.argv[1])); H=hashlib.sha256(); per=[]
for it in range(int(sys.argv[2])):
    n=rng.randint(2,6); nets=rand_tt_net(rng,n,p_input=0.15); rules=render(nets); hist=gen_hist(rng,n)
    A=SuccessionDiagram.from_rules(rules)
    signal.alarm(30)
    h1=hashlib.sha256()
    try:
        for step in hist:
            try: r=("ok",apply(A,step))
            except TO: raise
            except Exception as e: r=("exc",type(e).__name__)
            h1.update(repr(r).encode()); h1.update(repr(dump(A)).encode())
    except TO: h1.update(b"TO")
    signal.alarm(0)
    per.append(h1.hexdigest()[:12])
print(" ".join(per))
