import random, signal, sys
from ref import rand_tt_net, render, Ref, subspace
from biobalm import SuccessionDiagram
class TO(Exception): pass
def h(s,f): raise TO()
signal.signal(signal.SIGALRM,h)
def sp2mv(sp):
    m=v=0
    for k,x in sp.items():
        i=int(k[1:]); m|=1<<i; v|=x<<i
    return (m,v)
def st2int(sp): return sum(x<<int(k[1:]) for k,x in sp.items())
def inside(A,mv): return all((s&mv[0])==mv[1] for s in A)
def gen(rng):
    r=rng.random()
    if r<0.55: return rand_tt_net(rng, rng.randint(2,6), p_input=0.15)
    if r<0.7:
        n=rng.randint(2,4); return [(list(range(n)),[rng.randint(0,1) for _ in range(2**n)]) for _ in range(n)]
    a=rand_tt_net(rng,3,p_input=0.1,p_const=0); b=rand_tt_net(rng,3,p_input=0.1,p_const=0)
    return a+[([x+3 for x in regs],tt) for regs,tt in b]
default_knobs=(sys.argv[3]=="default")
rng=random.Random(int(sys.argv[1])); stats={"runs":0,"viol":0,"hang":0,"exc":0,"limit_err":0,"calls":0}
for it in range(int(sys.argv[2])):
    nets=gen(rng); n=len(nets); rules=render(nets); R=Ref(nets); atts=R.attractors()
    cfg=SuccessionDiagram.default_config()
    if not default_knobs:
        cfg["retained_set_optimization_threshold"]=rng.choice([0,1,2,3,5,1000])
        cfg["attractor_candidates_limit"]=rng.choice([0,1,2,3,5,100000])
        cfg["minimum_simulation_budget"]=rng.choice([0,1,10,1000])
        cfg["nfvs_size_threshold"]=rng.choice([0,1,3,2000])
    sd=SuccessionDiagram.from_rules(rules,config=cfg); stats["runs"]+=1; hist=[dict((k,cfg[k]) for k in ("retained_set_optimization_threshold","attractor_candidates_limit","minimum_simulation_budget","nfvs_size_threshold"))]
    signal.alarm(10)
    try:
        for _ in range(rng.randint(0,3)):
            ids=list(sd.node_ids()); nid=rng.choice(ids); lim=rng.choice([None,1,2,3]); op=rng.choice(["one","bfs","dfs"])
            try:
                if op=="one": sd.node_successors(nid,compute=True)
                elif op=="bfs": sd.expand_bfs(nid,None,lim)
                elif op=="dfs": sd.expand_dfs(nid,None,lim)
            except RuntimeError: pass
            hist.append((op,nid,lim))
        ids=list(sd.node_ids()); rng.shuffle(ids)
        for nid in ids[:3]:
            g=rng.random()<0.5; s=rng.random()<0.5
            stats["calls"]+=1
            try:
                L=sd.node_attractor_candidates(nid,compute=True,greedy_asp_minification=g,simulation_minification=s)
            except RuntimeError as e:
                if "Exceeded the maximum amount of attractor candidates" in str(e): stats["limit_err"]+=1; continue
                raise AssertionError(("other RuntimeError",str(e)[:60]))
            except TO: raise
            except Exception as e:
                raise AssertionError(("other exception",type(e).__name__,str(e)[:60]))
            mv=sp2mv(sd.node_data(nid)["space"])
            succ=[sp2mv(sd.node_data(c)["space"]) for c in sd.dag.successors(nid)]
            own=[A for A in atts if inside(A,mv) and not any(inside(A,c) for c in succ)]
            for c in L:
                if len(c)!=n or (st2int(c)&mv[0])!=mv[1]: raise AssertionError(("bad candidate",nid,c))
            cs=set(st2int(c) for c in L)
            miss=[A for A in own if not (A & cs)]
            if miss: raise AssertionError(("attractor not covered",nid,sd.node_data(nid)["expanded"],g,s,len(L),len(own)))
    except TO: stats["hang"]+=1
    except AssertionError as e:
        stats["viol"]+=1; key=e.args[0][0]; stats[key]=stats.get(key,0)+1
        if stats[key]<=3: print("VIOL", e.args[0], repr(rules)[:300], hist)
    signal.alarm(0)
print(stats)
