import random, faulthandler, networkx as nx
from p1gen import rand_net
from biobalm import SuccessionDiagram
rng = random.Random(7)
bad=0; tried=0
for i in range(3000):
    n = rng.randint(3,6)
    rules = rand_net(rng,n,rng.randint(1,3))
    sd = SuccessionDiagram.from_rules(rules)
    faulthandler.dump_traceback_later(20, exit=True)
    sd.expand_bfs()
    faulthandler.cancel_dump_traceback_later()
    tried+=1
    lp = {0:0}
    for v in nx.topological_sort(sd.dag):
        for s in sd.dag.successors(v):
            lp[s]=max(lp.get(s,0), lp[v]+1)
    wrong=[v for v in sd.node_ids() if sd.node_data(v)["depth"]!=lp.get(v,0)]
    if wrong:
        bad+=1
        if bad<=2: print("DEPTH WRONG", repr(rules), [(v, sd.node_data(v)["depth"], lp[v]) for v in wrong], len(sd))
print("tried", tried, "bad", bad)
