import random, faulthandler, sys, io, contextlib
from ref import rand_tt_net, render
from biobalm import SuccessionDiagram
def canon(sp): return tuple(sorted(sp.items()))
def dump(sd):
    nodes={}
    for i in sd.node_ids():
        d=sd.node_data(i)
        succ={}
        for s in sd.dag.successors(i):
            succ[canon(sd.node_data(s)["space"])]=sorted(canon(m) for m in sd.edge_all_stable_motifs(i,s))
        nodes[canon(d["space"])]=(d["expanded"], succ)
    return nodes
rng=random.Random(int(sys.argv[1]) if len(sys.argv)>1 else 5)
bad=0
for it in range(1500):
    n=rng.randint(3,6); nets=rand_tt_net(rng,n,p_input=0.15); rules=render(nets)
    faulthandler.dump_traceback_later(30, exit=True)
    full=SuccessionDiagram.from_rules(rules); full.expand_bfs(); F=dump(full)
    sd=SuccessionDiagram.from_rules(rules)
    hist=[]
    for step in range(rng.randint(1,6)):
        op=rng.choice(["one","bfs","dfs","min","attr","target","block","cand","ppn"])
        ids=list(sd.node_ids()); nid=rng.choice(ids)
        lim=rng.choice([None,1,2,3,5])
        try:
            if op=="one": sd.node_successors(nid, compute=True); hist.append(("one",nid))
            elif op=="bfs": sd.expand_bfs(nid, rng.choice([None,0,1,2]), lim); hist.append(("bfs",nid,lim))
            elif op=="dfs": sd.expand_dfs(nid, rng.choice([None,0,1,2]), lim); hist.append(("dfs",nid,lim))
            elif op=="min": sd.expand_minimal_spaces(nid, lim); hist.append(("min",nid,lim))
            elif op=="attr": sd.expand_attractor_seeds(lim); hist.append(("attr",lim))
            elif op=="target":
                t={f"v{i}":rng.randint(0,1) for i in rng.sample(range(n), rng.randint(0,n))}
                sd.expand_to_target(t, lim); hist.append(("target",t,lim))
            elif op=="block":
                maa=rng.random()<0.5
                sd.expand_block(find_motif_avoidant_attractors=maa,size_limit=lim, optimize_source_nodes=False); hist.append(("block",maa,lim))
            elif op=="ppn": sd.node_percolated_petri_net(nid, compute=True); hist.append(("ppn",nid))
            elif op=="cand":
                pass
        except Exception as e:
            hist.append(("EXC",op,repr(e)[:80])); 
        D=dump(sd)
        ok=True
        for sp,(exp,succ) in D.items():
            if sp not in F: ok=False; why=("node not in full",sp); break
            if exp:
                if succ!=F[sp][1]: ok=False; why=("succ/motif mismatch",sp,succ,F[sp][1]); break
            else:
                if succ: ok=False; why=("stub has succ",sp); break
        if not ok:
            bad+=1
            if bad<=3: print("MISMATCH", repr(rules), hist, why)
            break
    faulthandler.cancel_dump_traceback_later()
    # continue with full expansion and compare
    if ok:
        try:
            sd.expand_bfs()
            if dump(sd)!=F:
                bad+=1; print("FINAL MISMATCH", repr(rules), hist)
        except Exception as e:
            print("EXC final", e)
print("bad",bad)
