import random, signal, sys
src=open(__import__('os').path.join(__import__('os').path.dirname(__import__('os').path.abspath(__file__)),'p15.py')).read().split("rng=random.Random(int(sys.argv[1])); bad=0")[0]
exec(src)
def sets(sd):
    nodes=set(canon(sd.node_data(i)["space"]) for i in sd.node_ids())
    edges=set((canon(sd.node_data(a)["space"]),canon(sd.node_data(b)["space"])) for a,b in sd.dag.edges())
    return nodes,edges
rng=random.Random(int(sys.argv[1])); bad=0; runs=0; nontriv=0
for it in range(int(sys.argv[2])):
    n=rng.randint(2,6); nets=rand_tt_net(rng,n,p_input=0.15); rules=render(nets)
    A=SuccessionDiagram.from_rules(rules); B=SuccessionDiagram.from_rules(rules)
    HA=[s for s in gen_hist(rng,n) if s[0] not in("cand","seeds","sets","control")]; HB=[s for s in gen_hist(rng,n) if s[0] not in("cand","seeds","sets","control")]
    signal.alarm(20)
    try:
        for s in HA:
            try: apply(A,s)
            except TO: raise
            except Exception: pass
        for s in HB:
            try: apply(B,s)
            except TO: raise
            except Exception: pass
        runs+=1
        na,ea=sets(A); nb,eb=sets(B)
        exp_sub=(na<=nb and ea<=eb); exp_sub2=(nb<=na and eb<=ea)
        got=A.is_subgraph(B); got2=B.is_subgraph(A); iso=A.is_isomorphic(B)
        nontriv+= (len(A)>1 and len(B)>1)
        if got!=exp_sub or got2!=exp_sub2 or iso!=(exp_sub and exp_sub2):
            bad+=1
            if bad<=4: print("DIFF", repr(rules), [s[0] for s in HA],[s[0] for s in HB], got,exp_sub,got2,exp_sub2, len(A),len(B))
    except TO: pass
    signal.alarm(0)
print("runs",runs,"bad",bad,"nontriv",nontriv)
