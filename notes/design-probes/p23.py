import random, signal, sys
from ref import rand_tt_net, render, Ref, subspace
from biobalm import SuccessionDiagram
class TO(Exception): pass
def h(s,f): raise TO()
signal.signal(signal.SIGALRM,h)
def sp2mv(sp):
    m=v=0
    for k,x in sp.items():
        i=int(k[1:]); m|=1<<i; v|=x<<i
    return (m,v)
def gen(rng):
    r=rng.random()
    if r<0.6: return rand_tt_net(rng, rng.randint(2,6), p_input=0.15)
    a=rand_tt_net(rng,3,p_input=0.1,p_const=0); b=rand_tt_net(rng,3,p_input=0.1,p_const=0)
    return a+[([x+3 for x in regs],tt) for regs,tt in b]
rng=random.Random(int(sys.argv[1])); stats={"runs":0,"viol":0,"hang":0,"exc":0,"checked":0}
for it in range(int(sys.argv[2])):
    nets=gen(rng); n=len(nets); rules=render(nets); R=Ref(nets)
    traps=R.all_traps(); mins=sorted(t for t in traps if not any(u!=t and subspace(u,t) for u in traps))
    sd=SuccessionDiagram.from_rules(rules); stats["runs"]+=1; hist=[]
    signal.alarm(20)
    try:
        mode=rng.choice(["prefix","fresh","earlystop"])
        if mode=="prefix":
            for _ in range(rng.randint(1,4)):
                ids=list(sd.node_ids()); nid=rng.choice(ids); lim=rng.choice([None,1,2,3]); op=rng.choice(["one","bfs","dfs","min","attr","target","blockplain"])
                if op=="one": sd.node_successors(nid,compute=True)
                elif op=="bfs": sd.expand_bfs(nid,rng.choice([None,0,1]),lim)
                elif op=="dfs": sd.expand_dfs(nid,rng.choice([None,0,1]),lim)
                elif op=="min": sd.expand_minimal_spaces(nid,lim)
                elif op=="attr": sd.expand_attractor_seeds(lim)
                elif op=="target": sd.expand_to_target({f"v{i}":rng.randint(0,1) for i in rng.sample(range(n), rng.randint(0,n))}, lim)
                elif op=="blockplain": sd.expand_block(rng.random()<0.5, lim, False)
                hist.append((op,nid,lim))
            S=rng.choice(["bfs","dfs","min","attr"])
        else:
            S=rng.choice(["bfs","dfs","min","attr","block","scc"])
        lim=None
        if mode=="earlystop" and S!="scc": lim=rng.choice([1,2,3,4])
        opts=(rng.random()<0.5, rng.random()<0.5, rng.random()<0.5)
        if S=="bfs": done=sd.expand_bfs(size_limit=lim)
        elif S=="dfs": done=sd.expand_dfs(size_limit=lim)
        elif S=="min": done=sd.expand_minimal_spaces(size_limit=lim, skip_ignored=opts[0])
        elif S=="attr": done=sd.expand_attractor_seeds(size_limit=lim)
        elif S=="block": done=sd.expand_block(opts[0], lim, opts[1], opts[2])
        elif S=="scc": done=sd.expand_scc(opts[0])
        hist.append((S,lim,opts,done))
        if not done:
            how=rng.choice(["skiprem","skipmin_all","minskip"])
            if how=="skiprem": sd.skip_remaining()
            elif how=="skipmin_all":
                stubs=list(sd.stub_ids()); rng.shuffle(stubs)
                for s in stubs: sd.skip_to_minimal(s)
                # newly created nodes by skip are expanded; loop until no stubs
                while list(sd.stub_ids()):
                    for s in list(sd.stub_ids()): sd.skip_to_minimal(s)
            else:
                sd.expand_minimal_spaces(skip_ignored=True); sd.skip_remaining()
            hist.append(how)
        got=sorted(sp2mv(sd.node_data(i)["space"]) for i in sd.minimal_trap_spaces())
        stats["checked"]+=1
        if got!=mins: raise AssertionError(("min traps differ",mode,S,len(got),len(mins)))
    except TO: stats["hang"]+=1
    except AssertionError as e:
        stats["viol"]+=1; key=str(e.args[0][:3]); stats[key]=stats.get(key,0)+1
        if stats[key]<=2: print("VIOL", e.args[0], repr(rules), hist)
    except Exception as e:
        stats["exc"]+=1
        if stats["exc"]<=3: print("EXC", type(e).__name__, str(e)[:200], repr(rules), hist)
    signal.alarm(0)
print(stats)
