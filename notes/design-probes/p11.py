import random, sys, signal
from ref import rand_tt_net, render, Ref, subspace
from biobalm import SuccessionDiagram
class TO(Exception): pass
def h(sig,frm): raise TO()
signal.signal(signal.SIGALRM,h)
def st2int(sp,n): 
    return sum(sp[f"v{i}"]<<i for i in range(n))
def sp2mv(sp):
    m=v=0
    for k,x in sp.items():
        i=int(k[1:]); m|=1<<i; v|=x<<i
    return (m,v)
rng=random.Random(int(sys.argv[1]))
stats={"runs":0,"hang":0,"c03":0,"c01":0,"exc":0}
strategies=["build","block","bfs","dfs","scc","attr","min"]
for it in range(int(sys.argv[2])):
    n=rng.randint(2,6); nets=rand_tt_net(rng,n,p_input=0.12); rules=render(nets)
    R=Ref(nets); atts=R.attractors(); traps=R.all_traps()
    mins=sorted(t1 for t1 in traps if not any(t2!=t1 and subspace(t2,t1) for t2 in traps))
    S=rng.choice(strategies)
    sd=SuccessionDiagram.from_rules(rules)
    stats["runs"]+=1
    signal.alarm(15)
    try:
        if S=="build": sd.build(); done=True
        elif S=="block": done=sd.expand_block()
        elif S=="bfs": done=sd.expand_bfs()
        elif S=="dfs": done=sd.expand_dfs()
        elif S=="scc": done=sd.expand_scc()
        elif S=="attr": done=sd.expand_attractor_seeds()
        elif S=="min": done=sd.expand_minimal_spaces()
        got=sorted(sp2mv(sd.node_data(i)["space"]) for i in sd.minimal_trap_spaces())
        if got!=mins:
            stats["c03"]+=1
            if stats["c03"]<=3: print("C03", S, repr(rules), got, mins)
        if S!="min":
            seeds=sd.expanded_attractor_seeds()
            found=[]
            okc=True
            for nid,ss in seeds.items():
                m,v=sp2mv(sd.node_data(nid)["space"])
                for s in ss:
                    x=st2int(s,n)
                    a=[A for A in atts if x in A]
                    if not a: okc=False; why=("seed not in attractor",nid,s); break
                    if not all((y&m)==v for y in a[0]): okc=False; why=("attr not in node",nid,s); break
                    for c in sd.node_successors(nid):
                        cm,cv=sp2mv(sd.node_data(c)["space"])
                        if all((y&cm)==cv for y in a[0]): okc=False; why=("attr inside successor",nid,s,c); break
                    found.append(a[0])
            if okc and (len(found)!=len(set(found)) or set(found)!=set(atts)):
                okc=False; why=("bijection", len(found), len(set(found)), len(atts))
            if not okc:
                stats["c01"]+=1
                if stats["c01"]<=4: print("C01", S, repr(rules), why)
    except TO:
        stats["hang"]+=1
        if stats["hang"]<=2: print("HANG", S, repr(rules))
    except Exception as e:
        stats["exc"]+=1
        if stats["exc"]<=3: print("EXC", S, repr(rules), repr(e)[:200])
    finally:
        signal.alarm(0)
print(stats)
