import random, signal, sys
from ref import rand_tt_net, render, Ref, subspace
from biobalm import SuccessionDiagram
import biobalm._sd_attractors.attractor_candidates as AC
class TO(Exception): pass
def h(s,f): raise TO()
signal.signal(signal.SIGALRM,h)
def sp2mv(sp):
    m=v=0
    for k,x in sp.items():
        i=int(k[1:]); m|=1<<i; v|=x<<i
    return (m,v)
def st2int(sp): return sum(x<<int(k[1:]) for k,x in sp.items())
def vs2set(sd,vs):
    out=set()
    for v in vs.items():
        d=v.to_dict()
        out.add(sum(int(x)<<int(sd.network.get_variable_name(k)[1:]) for k,x in d.items()))
    return frozenset(out)
def gen(rng):
    r=rng.random()
    if r<0.6: return rand_tt_net(rng, rng.randint(2,6), p_input=0.12)
    a=rand_tt_net(rng,3,p_input=0.1,p_const=0); b=rand_tt_net(rng,3,p_input=0.1,p_const=0)
    return a+[([x+3 for x in regs],tt) for regs,tt in b]
real=AC.compute_fixed_point_reduced_STG
def boom(*a,**k): raise RuntimeError("injected")
def prefix(sd,rng,H):
    for (op,r,lim,flag) in H:
        ids=list(sd.node_ids()); nid=ids[int(r*len(ids))]
        if op=="one": sd.node_successors(nid,compute=True)
        elif op=="bfs": sd.expand_bfs(nid,None,lim)
        elif op=="min": sd.expand_minimal_spaces(nid,lim,flag)
        elif op=="skipmin": sd.skip_to_minimal(nid)
        elif op=="skiprem": sd.skip_remaining()
        elif op=="block": sd.expand_block(flag, lim)
rng=random.Random(int(sys.argv[1])); stats={"runs":0,"viol":0,"hang":0,"exc":0,"nodes":0,"fallbacks":0}
for it in range(int(sys.argv[2])):
    nets=gen(rng); n=len(nets); rules=render(nets); R=Ref(nets); atts=R.attractors()
    H=[(rng.choice(["one","bfs","min","skipmin","skiprem","block"]), rng.random(), rng.choice([None,1,2,3]), rng.random()<0.5) for _ in range(rng.randint(0,4))]
    stats["runs"]+=1
    signal.alarm(8)
    try:
        A=SuccessionDiagram.from_rules(rules); B=SuccessionDiagram.from_rules(rules)
        prefix(A,rng,H); prefix(B,rng,H)
        ids=list(A.node_ids()); rng.shuffle(ids)
        for nid in ids[:3]:
            stats["nodes"]+=1
            seeds=A.node_attractor_seeds(nid,compute=True)
            if rng.random()<0.5: A.reclaim_node_data()
            sets=A.node_attractor_sets(nid,compute=True)
            if len(sets)!=len(seeds): raise AssertionError(("len mismatch",nid))
            S=[]
            for s,vs in zip(seeds,sets):
                a=[x for x in atts if st2int(s) in x]
                got=vs2set(A,vs)
                if not a or got!=a[0]: raise AssertionError(("set != attractor of seed",nid,A.node_data(nid)["skipped"],A.node_data(nid)["expanded"],len(got),len(a[0]) if a else None))
                S.append(got)
            # fallback on twin
            AC.compute_fixed_point_reduced_STG=boom
            try:
                fs=B.node_attractor_seeds(nid,compute=True,symbolic_fallback=True)
                fsets=B.node_attractor_sets(nid,compute=True)
            finally:
                AC.compute_fixed_point_reduced_STG=real
            stats["fallbacks"]+=1
            F=set(vs2set(B,x) for x in fsets)
            if F!=set(S): raise AssertionError(("fallback differs",nid,A.node_data(nid)["skipped"],A.node_data(nid)["expanded"],len(F),len(S)))
            # keep twins in sync: compute normally on B? B now has fallback results cached (should be equal)
    except TO: stats["hang"]+=1
    except AssertionError as e:
        stats["viol"]+=1; k=e.args[0][0]; stats[k]=stats.get(k,0)+1
        if stats[k]<=3: print("VIOL", e.args[0], repr(rules), H)
    except Exception as e:
        stats["exc"]+=1
        if stats["exc"]<=3: print("EXC", type(e).__name__, str(e)[:200], repr(rules), H)
    finally:
        AC.compute_fixed_point_reduced_STG=real
    signal.alarm(0)
print(stats)
