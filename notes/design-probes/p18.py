import traceback
from biobalm import SuccessionDiagram
import biobalm.trappist_core as TC
RealControl = TC.Control
class Boom: n=0; fail_at=None
def mk(*a,**k):
    Boom.n+=1
    if Boom.fail_at is not None and Boom.n==Boom.fail_at: raise RuntimeError("injected")
    return RealControl(*a,**k)
TC.Control = mk
rules='v0, (v0 & v2)\nv1, (!v0 & !v1 & !v2) | (v0 & !v1 & !v2) | (!v0 & v1 & !v2) | (!v0 & !v1 & v2) | (v0 & !v1 & v2) | (v0 & v1 & v2)\nv2, (!v1 & !v2)\nv3, (v3 & !v4) | (!v3 & v4)\nv4, (!v5)\nv5, (v4)'
sd=SuccessionDiagram.from_rules(rules); Boom.fail_at=3
try: sd.expand_scc()
except RuntimeError: traceback.print_exc(limit=8)
for i in sd.node_ids(): print(i, sd.node_data(i)["space"], sd.node_data(i)["expanded"], list(sd.dag.successors(i)))
