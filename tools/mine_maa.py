#!/venv/bin/python
"""Mine a corpus of small networks that have a motif-avoidant attractor, using the
reference model only (no biobalm).  Deterministic: block b of candidates is drawn from
random.Random(f"maa/{b}"); results are concatenated in block order."""
import json, os, random, sys
from concurrent.futures import ProcessPoolExecutor

ROOT = os.path.dirname(os.path.dirname(os.path.abspath(__file__)))
sys.path.insert(0, ROOT)
from sim.netgen import fam_sparse, fam_dense, reduce_func  # noqa: E402
from sim.refmodel import Ref  # noqa: E402

BLOCKS = 192
PER_BLOCK = 2500
WANT = 400


def block(b):
    rng = random.Random(f"maa/{b}")
    out = []
    for _ in range(PER_BLOCK):
        n = rng.choice([3, 3, 4, 4, 5])
        if rng.random() < 0.25 and n <= 4:
            funcs, _ = fam_dense(rng, n)
        else:
            funcs, _ = fam_sparse(rng, n, p_input=0.0, p_const=0.0, kmax=3)
        funcs = [reduce_func(r, t) for r, t in funcs]
        R = Ref(funcs)
        if R.maa():
            out.append(funcs)
    return out


def main():
    res = []
    with ProcessPoolExecutor(max_workers=min(16, os.cpu_count() or 1)) as ex:
        for part in ex.map(block, range(BLOCKS)):
            res.extend(part)
    seen = set()
    uniq = []
    for f in res:
        k = json.dumps(f)
        if k not in seen:
            seen.add(k)
            uniq.append(f)
    uniq = uniq[:WANT]
    os.makedirs(os.path.join(ROOT, "corpus"), exist_ok=True)
    with open(os.path.join(ROOT, "corpus", "maa.json"), "w") as fh:
        json.dump(uniq, fh)
        fh.write("\n")
    print(f"mined {len(uniq)} motif-avoidant cores from {BLOCKS * PER_BLOCK} candidates")


main()
