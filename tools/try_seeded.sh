#!/bin/bash
# try_seeded.sh <PROP> <name> [props-to-check...]
# Takes the uncommitted change + demo from the scratch worktree /tmp/wt-<PROP>, confirms
# (1) demo fails with the change and passes without, (2) the pinned suite passes with the
# change, stores it under /verif/seeded/<name>/ and runs the given quick checks against it.
set -u
P=$1; NAME=$2; shift 2
WT=${WTDIR:-/tmp/wt-$P}
OUT=/verif/seeded/$NAME
mkdir -p $OUT
git -C $WT diff -- biobalm > $OUT/patch.diff
cp $WT/demo_$P.py $OUT/demo.py 2>/dev/null || cp $WT/demo_*.py $OUT/demo.py
echo "== patch: $(wc -l < $OUT/patch.diff) lines"
# demo with the change
( cd $WT && timeout 600 /venv/bin/python $OUT/../$NAME/demo.py >/dev/null 2>&1 ); true
S=$(mktemp -d /tmp/seeded-XXXX)
cp $OUT/demo.py $S/demo.py; ln -s $WT/biobalm $S/biobalm
( cd $S && timeout 600 /venv/bin/python demo.py > $S/with.txt 2>&1 ); RC_WITH=$?
rm $S/biobalm; ln -s /repo/biobalm $S/biobalm
( cd $S && timeout 600 /venv/bin/python demo.py > $S/without.txt 2>&1 ); RC_WITHOUT=$?
echo "== demo exit with change: $RC_WITH ; without: $RC_WITHOUT"
tail -3 $S/with.txt | cut -c1-300
rm -rf $S
( cd $WT && timeout 1500 /venv/bin/python -m pytest -q -p no:cacheprovider --timeout=900 --deselect tests/clingo_test.py::test_clingo 2>&1 | tail -1 ) > $OUT/suite.txt
echo "== suite with change: $(cat $OUT/suite.txt)"
for C in "$@"; do
  BIOBALM_SRC=$WT BIOSIM_NO_MINIMIZE=1 BIOSIM_REPLAY_DIR=$OUT/replays timeout 1500 /verif/check $C --tier quick --no-evidence > $OUT/check-$C.txt 2>&1
  echo "== check $C exit $? : $(grep -c '^VIOLATION' $OUT/check-$C.txt) violation line(s)"
  grep -A1 '^VIOLATION' $OUT/check-$C.txt | head -6 | cut -c1-400
done
