"""agent_prompt.py <Cxx>: the prompt given to an independent sub-agent that seeds a breaking
change (DESIGN.md section 10).  The agent sees only the property text, never /verif."""
import json, os, sys
pid = sys.argv[1]
ROOT = os.path.dirname(os.path.dirname(os.path.abspath(__file__)))
prop = None
for line in open(os.path.join(ROOT, "properties.jsonl")):
    d = json.loads(line)
    if d["id"] == pid:
        prop = f"{d['id']} \u2014 {d['title']}\n\nStatement: {d['statement']}\n\nQuantifier: {d['quantifier']['text']}\n"
assert prop, pid
print(f"""You are helping to evaluate how well a test/verification setup can detect regressions in the Python library `biobalm` (succession diagrams of Boolean networks; uses clingo and biodivine_aeon). You have your own scratch git worktree of the library at /tmp/wt-{pid} (work ONLY inside that directory; do not read or touch /repo, /verif or any other /tmp/wt-* directory).

Your job: write a small, realistic change to the library source (under /tmp/wt-{pid}/biobalm/) that BREAKS the following semantic property, while the code still imports/compiles and the existing test-suite still passes.

PROPERTY
{prop}
REQUIREMENTS
1. The change must be a plausible regression a developer could introduce (an off-by-one, a dropped invalidation, a wrong comparison, a reordered statement, a cache that is not cleared, an optimisation that is subtly unsound, two sites that each look fine alone but interact badly, ...). Not sabotage that ordinary use exposes at once: prefer a change that needs something SPECIFIC to manifest — a particular sequence of API calls, a particular limit value, a failure/exception at a particular point, an unusual network structure, a pickle round trip at a particular moment, etc.
2. The existing test-suite must still pass with your change. Run it with:
   cd /tmp/wt-{pid} && /venv/bin/python -m pytest -q -p no:cacheprovider --timeout=900 -x --deselect tests/clingo_test.py::test_clingo
   (tests/clingo_test.py::test_clingo fails in this sandbox even without any change because there is no clingo binary; ignore it. The suite takes about a minute. Because you run pytest from inside the worktree, `import biobalm` resolves to your worktree copy.)
3. Write a demonstration program /tmp/wt-{pid}/demo_{pid}.py (a plain script using only biobalm / biodivine_aeon / networkx / the standard library; it must put its own directory first on sys.path so that it imports the worktree's biobalm: `import os, sys; sys.path.insert(0, os.path.dirname(os.path.abspath(__file__)))`). It must exit with status 0 and print PASS on the UNCHANGED library, and exit with non-zero status (print FAIL and what was observed) WITH your change, by checking the property on a concrete scenario. Verify both: run it with your change applied, then `git stash` (or `git diff > /tmp/wt-{pid}/change.patch && git checkout -- biobalm`), run it again on the unchanged code, then re-apply your change. Keep the networks small (at most 8 variables) if you can.
4. Leave the worktree with your change APPLIED (uncommitted, visible in `git diff`) and demo_{pid}.py present. Do not commit.
5. Keep the diff small (ideally < 25 changed lines), touch only files under biobalm/.

Useful facts: python is /venv/bin/python (3.12). Public API: biobalm.SuccessionDiagram (from_rules(bnet text), expand_bfs/expand_dfs/expand_minimal_spaces/expand_attractor_seeds/expand_to_target/expand_block/expand_scc/build, skip_to_minimal, skip_remaining, node_attractor_candidates/seeds/sets(node_id, compute=True), reclaim_node_data, node_data(id), find_node, is_subgraph, is_isomorphic, summary, depth, pickle support) and biobalm.control.succession_control. Read the source under /tmp/wt-{pid}/biobalm to find a good spot.

In your final answer report: (a) what you changed and why it breaks the property, (b) exactly what is needed for it to manifest, (c) the output of the demo with and without the change, (d) confirmation that the test-suite passes with the change. If after honest effort you cannot produce a change that both breaks the property and keeps the suite green, say so and explain what you tried.""")
