#!/bin/bash
# run every claimed check at the given tier (default quick) and summarise
TIER=${1:-quick}
cd "$(dirname "$0")/.."
for P in $(python3 -c "import json; print(' '.join(c['property_id'] for c in json.load(open('MANIFEST.json'))['checks']))"); do
  s=$(date +%s)
  ./check $P --tier $TIER > /tmp/all-$P.log 2>&1
  rc=$?
  echo "$P exit=$rc $(($(date +%s)-s))s $(grep -c '^VIOLATION' /tmp/all-$P.log) violations | $(tail -1 /tmp/all-$P.log | cut -c1-160)"
done
