#!/bin/bash
# eval_round.sh <worktree-prefix> <name-suffix>   e.g. eval_round.sh /tmp/wt4- d
# Evaluates every scratch worktree <prefix>Cxx that has a demo file, 3 at a time.
PRE=$1; SUF=$2
declare -A REL=( [C01]="C01 C14 C12" [C03]="C03 C15" [C04]="C04 C15" [C05]="C05 C14 C08" [C06]="C06" [C08]="C08 C15 C01" [C12]="C12 C14 C16" [C13]="C13" [C14]="C14" [C15]="C15" [C16]="C16 C12" [C19]="C19" [C20]="C20 C01" )
n=0
for P in C01 C03 C04 C05 C06 C08 C12 C13 C14 C15 C16 C19 C20; do
  WT=$PRE$P
  ls $WT/demo_*.py >/dev/null 2>&1 || { echo "$P: no demo yet"; continue; }
  [ -f /tmp/ev-$SUF-$P.log ] && continue
  ( WTDIR=$WT /verif/tools/try_seeded.sh $P ${P}${SUF}-pending ${REL[$P]} > /tmp/ev-$SUF-$P.log 2>&1 ) &
  n=$((n+1)); if [ $((n % 3)) -eq 0 ]; then wait; fi
done
wait
for P in C01 C03 C04 C05 C06 C08 C12 C13 C14 C15 C16 C19 C20; do [ -f /tmp/ev-$SUF-$P.log ] && { echo "### $P"; grep -h "== " /tmp/ev-$SUF-$P.log; }; done
