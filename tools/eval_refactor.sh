#!/bin/bash
# eval_refactor.sh <worktree> <tag>: run every quick check against a behaviour-preserving
# change; any VIOLATION / non-zero exit is a false alarm to be analysed.
WT=$1; TAG=$2
cd /verif
( cd $WT && timeout 1500 /venv/bin/python -m pytest -q -p no:cacheprovider --timeout=900 --deselect tests/clingo_test.py::test_clingo 2>&1 | tail -1 ) > /tmp/refac-$TAG-suite.txt
echo "suite: $(cat /tmp/refac-$TAG-suite.txt)"
for P in C01 C03 C04 C05 C06 C08 C12 C13 C14 C15 C16 C19 C20; do
  BIOBALM_SRC=$WT BIOSIM_NO_MINIMIZE=1 BIOSIM_REPLAY_DIR=/tmp/refac-$TAG-replays BIOSIM_WORKERS=8 timeout 1500 ./check $P --tier quick --no-evidence > /tmp/refac-$TAG-$P.log 2>&1
  echo "$P exit=$? violations=$(grep -c '^VIOLATION' /tmp/refac-$TAG-$P.log) known=$(grep -c '^KNOWN' /tmp/refac-$TAG-$P.log) | $(grep -A1 '^VIOLATION' /tmp/refac-$TAG-$P.log | grep invariant | head -2 | cut -c1-200 | tr '\n' ' ')"
done
