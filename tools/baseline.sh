#!/bin/bash
# Runs the pinned test-suite of /repo (command of /root/.vp/BASELINE.json) and
# compares the passing set with BASELINE.stable_pass.  Exit 0 iff every stable
# test still passes.
out=$(mktemp /tmp/junit.XXXXXX.xml)
cd /repo && /venv/bin/python -m pytest -ra -q -p no:cacheprovider --timeout=900 --continue-on-collection-errors --junitxml="$out" "$@" > /tmp/baseline.log 2>&1
python3 - "$out" <<'PY'
import json, sys, xml.etree.ElementTree as ET
base = json.load(open('/root/.vp/BASELINE.json'))
want = set(base['stable_pass'])
root = ET.parse(sys.argv[1]).getroot()
passed = set()
for tc in root.iter('testcase'):
    name = f"{tc.get('classname')}::{tc.get('name')}"
    if not any(ch.tag in ('failure', 'error', 'skipped') for ch in tc):
        passed.add(name)
missing = sorted(want - passed)
print(f"stable_pass={len(want)} passed_now={len(passed)} missing={len(missing)}")
for m in missing[:20]:
    print("  MISSING", m)
sys.exit(1 if missing else 0)
PY
rc=$?
rm -f "$out"
exit $rc
