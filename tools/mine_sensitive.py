#!/venv/bin/python
"""Rank the mined motif-avoidant cores (corpus/maa.json) by how much the *representative*
seed that biobalm reports depends on the order in which the solver delivers its models
(seam S-clingo, reorder mode).  Only used to weight workload generation in C19 (cores on
which incidental orders can show at all); no oracle depends on it.  Deterministic:
reorder seeds 0..5 per core.  Writes corpus/maa_order_sensitive.json = list of indices."""
import json, os, random, sys
from concurrent.futures import ProcessPoolExecutor

ROOT = os.path.dirname(os.path.dirname(os.path.abspath(__file__)))
sys.path.insert(0, ROOT)


def probe(idx):
    from sim import seams
    from sim.netgen import load_corpus, normalize, render_bnet
    import biobalm

    seams.install()
    core = load_corpus()[idx]
    n = len(core)
    net = normalize({"names": [f"v{i}" for i in range(n)], "funcs": [[list(r), list(t)] for r, t in core], "free": [], "fmt": "bnet", "order": list(range(n)), "family": "maa"})
    rules = render_bnet(net)
    seen = set()
    for s in [None, 0, 1, 2, 3, 4, 5]:
        seams.reset_faults()
        seams.SOLVER.reorder_rng = random.Random(s) if s is not None else None
        try:
            sd = biobalm.SuccessionDiagram.from_rules(rules)
            sd.expand_bfs()
            res = sorted((json.dumps(sorted(sd.node_data(i)["space"].items())), sorted(json.dumps(sorted(x.items())) for x in sd.node_attractor_seeds(i, compute=True))) for i in sd.node_ids())
        except Exception as e:  # noqa: BLE001
            res = repr(e)
        seen.add(json.dumps(res))
    return idx, len(seen)


def main():
    from sim.netgen import load_corpus

    n = len(load_corpus())
    with ProcessPoolExecutor(max_workers=min(16, os.cpu_count() or 1)) as ex:
        res = list(ex.map(probe, range(n), chunksize=8))
    sens = [i for i, k in res if k > 1]
    with open(os.path.join(ROOT, "corpus", "maa_order_sensitive.json"), "w") as fh:
        json.dump(sens, fh)
        fh.write("\n")
    print(f"{len(sens)} of {n} cores report a different seed under some model order")


main()
