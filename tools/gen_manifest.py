#!/usr/bin/env python3
"""Regenerates /verif/MANIFEST.json from the table below (kept in one place so
the manifest stays valid while machines are added)."""
import json, os, sys

ROOT = os.path.dirname(os.path.dirname(os.path.abspath(__file__)))

CLAIMED = {
    "C01": ("exploration", "§4 C01", "seeded simulation: strategy x random-walk PRNG seam x solver model-order seam x seed-query order (with reclaim) on generated networks; oracle = explicit-state attractors of the reference model", "deterministic simulation: PRNG/model-order/query-order seams + explicit-state oracle"),
    "C03": ("exploration", "§4 C03", "seeded histories: arbitrary prefixes of plain expansion calls, option swarm, early stops at every size limit, completion by skipping; oracle = brute-force minimal trap spaces", "deterministic simulation: seeded op histories + brute-force trap-space oracle"),
    "C04": ("exploration", "§4 C04", "stateful machine over interleavings of plain expansion calls with arbitrary limits/start nodes and cache eviction (fast/slow path), invariant after every step against the library's own fresh full expansion", "deterministic simulation: seeded interleavings with cache-loss faults, self-relative twin oracle after every step"),
    "C05": ("exploration", "§4 C05", "seeded histories: early-stopped strategy, seeded subset/order of skip nodes, seeded order of seed queries over all nodes, PRNG seam; oracle = explicit-state attractors", "deterministic simulation: seeded skip/query schedules + explicit-state oracle"),
    "C06": ("exploration", "§4 C06", "seeded prior histories (partial, skipped, shortcut diagrams) followed by succession control with swarmed options; oracle = explicit STG of the overridden network + brute-force trap spaces", "deterministic simulation: seeded histories + explicit overridden-dynamics oracle"),
    "C08": ("exploration", "§4 C08", "tuning-knob randomisation (0/1/below/at/above the measured candidate count), 4 option combinations, PRNG and model-order seams, resource-limit errors as legal outcomes; oracle = explicit-state attractors", "deterministic simulation: knob/buggify randomisation + PRNG/model-order seams + explicit-state oracle"),
    "C12": ("exploration", "§4 C12", "seeded order of candidates/seeds/sets queries with reclaim, eviction and pickle round trips in between; injected solver failure / exact limit forces the symbolic fallback on a twin; oracle = explicit-state attractors", "deterministic simulation: query-order schedules with cache-loss/crash-restart/solver-failure faults + explicit-state oracle"),
    "C13": ("exploration", "§4 C13", "bounded liveness under a simulated clock (loop back-edges + calls executed in biobalm code): full op alphabet, knob randomisation, solver faults then quiet; an op exceeding the work budget is a violation", "deterministic simulation: simulated work clock + budget per op (bounded liveness)"),
    "C14": ("exploration", "§4 C14", "interleavings of attractor queries on unexpanded nodes with every successor-adding operation, reclaim and pickle; invariant after every step: whatever a node reports with compute=False is correct for its current successors", "deterministic simulation: seeded interleavings + invariant after every step against explicit-state oracle"),
    "C15": ("fault_enumeration", "§4 C15", "for each sampled (network, prefix, operation): every size/level/stack limit value and a solver failure at every clingo fault point are enumerated; post-state validity + resume equality against the never-interrupted twin", "fault enumeration: every limit value and every solver fault point of each sampled operation"),
    "C16": ("exploration", "§4 C16", "twin histories: the same seeded history with and without pickle round trips / reclaim / single-field evictions inserted at seeded points; every later answer and the dump with ids must agree", "deterministic simulation: crash-restart (pickle) and cache-loss faults at seeded points, twin-run equality"),
    "C19": ("exploration", "§4 C19", "the same scenario executed twice in-process, in fresh interpreters under several PYTHONHASHSEED values, interleaved with unrelated diagrams and after unrelated prefixes; complete event logs must be identical", "deterministic simulation: hash-seed / process / interleaving schedules, event-log digest equality"),
    "C20": ("exploration", "§4 C20", "seeded structural histories with metadata invariants after every step (longest-path depth, contiguous ids, find_node, is_subgraph/is_isomorphic vs set algebra on dumps, summary vs explicit-state attractors)", "deterministic simulation: seeded histories + invariants after every step"),
}

NA = {
    "C02": "pure function of the input network (full expansion of a fresh diagram): no history, schedule, fault, clock, randomness or process identity in its quantifier; checking it would be input generation against an oracle, not simulation (DESIGN.md §5)",
    "C07": "pure function of (network, target, options) on a fresh diagram; no history/fault/schedule dimension (DESIGN.md §5)",
    "C09": "pure function of the solver arguments; the only stateful element (early-stop callback) is exercised where it matters by C08/C15 (DESIGN.md §5)",
    "C10": "per-update-function symbolic equivalence of an encoding; nothing for a scheduler or a fault to act on (DESIGN.md §5)",
    "C11": "pure function of (network, subspace) (DESIGN.md §5)",
    "C17": "metamorphic relation between two pure runs on re-presented inputs; no schedule/fault/history (DESIGN.md §5)",
    "C18": "metamorphic relation between pure runs, and the published models are far outside the explicit-state oracle (DESIGN.md §5)",
}


def main():
    implemented = sorted(f[:-3].upper() for f in os.listdir(os.path.join(ROOT, "sim", "machines")) if f.startswith("c") and f.endswith(".py"))
    checks = []
    for pid in sorted(CLAIMED):
        if pid not in implemented:
            continue
        level, ref, text, tech = CLAIMED[pid]
        checks.append(
            {
                "property_id": pid,
                "quick_cmd": f"./check {pid} --tier quick",
                "thorough_cmd": f"./check {pid} --tier thorough",
                "evidence_file": f"/verif/evidence/{pid}.json",
                "replay_cmd_template": f"./check {pid} --replay {{path}}",
                "engine": "biosim",
                "level_claimed": {"category": level, "text": text, "design_ref": f"DESIGN.md {ref}"},
                "level_note": "trusted: explicit-state reference model (sim/refmodel.py, n<=8), CPython, the clingo and biodivine_aeon binaries; sampling (seeded search), not proof; imports biobalm from /repo's working tree (BIOBALM_SRC)",
                "technique": tech,
            }
        )
    na = [{"property_id": k, "reason": v} for k, v in sorted(NA.items())]
    for pid in sorted(CLAIMED):
        if pid not in implemented:
            na.append({"property_id": pid, "reason": "check not built yet (planned, see DESIGN.md); not claimed at this commit"})
    man = {
        "version": 1,
        "setup_cmd": "./setup.sh",
        "hooks": {
            "guard": "BIOBALM_VERIF_SIM",
            "enable": "no source hooks exist: every seam is a module attribute rebound by the harness (biobalm.trappist_core.Control/SolveHandle, attractor_candidates.random) plus sys.monitoring; ./check sets BIOBALM_VERIF_SIM=1 for its own workers and imports biobalm from /repo's working tree",
            "baseline_off_cmd": "cd /repo && /venv/bin/python -m pytest -ra -q -p no:cacheprovider --timeout=900 --continue-on-collection-errors",
            "source_commits": [],
            "add_only": True,
        },
        "engines": [{"name": "biosim", "path": "/verif/sim", "serves_properties": [c["property_id"] for c in checks], "kind_free_text": "deterministic simulator: seeded op/fault scheduler over the real library with clingo/random/clock seams, explicit-state reference model, ddmin minimiser, replay files"}],
        "checks": checks,
        "not_applicable": na,
        "notes": "Exit 0 = held on everything explored (KNOWN-FINDING lines possible); exit 1 = VIOLATION lines (each minimised and re-verified in a fresh interpreter); exit 2 = harness error. Genuine defects found and repaired are listed in known_findings.json as 'fixed:' lines.",
    }
    with open(os.path.join(ROOT, "MANIFEST.json"), "w") as fh:
        json.dump(man, fh, indent=1)
        fh.write("\n")
    print("claimed:", [c["property_id"] for c in checks])


main()
