#!/bin/bash
# soak.sh <wall-seconds-per-property> [seed]: thorough-tier generators with a custom wall budget,
# no evidence written (bug hunting only; evidence comes from tools/run_all.sh against /repo)
WALL=${1:-480}; SEED=${2:-7}
cd "$(dirname "$0")/.."
for P in $(python3 -c "import json; print(' '.join(c['property_id'] for c in json.load(open('MANIFEST.json'))['checks']))"); do
  s=$(date +%s)
  ./check $P --tier thorough --wall $WALL --seed $SEED --no-evidence > /tmp/soak-$P.log 2>&1
  rc=$?
  echo "$P exit=$rc $(($(date +%s)-s))s $(grep -c '^VIOLATION' /tmp/soak-$P.log) violations | $(grep '^runs=' /tmp/soak-$P.log | cut -c1-140)"
  grep -A1 '^VIOLATION\|^HARNESS' /tmp/soak-$P.log | cut -c1-600
done
