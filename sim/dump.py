"""Canonical observable dump of a SuccessionDiagram + digests (DESIGN.md §2.6).

Only what the public API returns is looked at; raw cache fields are reported as
"which kinds of attractor data answer with compute=False" and their content.
"""

from __future__ import annotations

import hashlib
import json


def _cs(sp):
    return tuple(sorted((k, int(v)) for k, v in sp.items()))


def node_attr_data(world, nid):
    """What the node reports without recomputation: dict kind -> canonical value."""
    sd = world.sd
    res = {}
    try:
        res["candidates"] = [_cs(s) for s in sd.node_attractor_candidates(nid, compute=False)]
    except KeyError:
        pass
    try:
        res["seeds"] = [_cs(s) for s in sd.node_attractor_seeds(nid, compute=False)]
    except KeyError:
        pass
    try:
        res["sets"] = [tuple(world.enum_set(s)) for s in sd.node_attractor_sets(nid, compute=False)]
    except KeyError:
        pass
    return res


def dump(world, with_ids=True, attr=True):
    """Return a JSON-able canonical dump.  with_ids=False keys everything by space."""
    sd = world.sd
    nodes = []
    for i in range(len(sd)):
        d = sd.node_data(i)
        sp = _cs(d["space"])
        succ = []
        for s in sd.dag.successors(i):
            e = sd.dag.edges[i, s]
            child = s if with_ids else _cs(sd.node_data(s)["space"])
            succ.append([child, _cs(e["motif"]) if with_ids else None, sorted(_cs(m) for m in e["all_motifs"])])
        succ.sort(key=lambda x: (repr(x[0]), x[2]))
        rec = {
            "space": sp,
            "expanded": bool(d["expanded"]),
            "skipped": bool(d["skipped"]),
            "succ": succ,
        }
        if with_ids:
            rec["id"] = i
            rec["depth"] = d["depth"]
        if attr:
            rec["attr"] = node_attr_data(world, i)
        nodes.append(rec)
    if not with_ids:
        nodes.sort(key=lambda r: r["space"])
    out = {"nodes": nodes, "len": len(sd)}
    if with_ids:
        out["depth"] = sd.depth()
        out["minimal"] = list(sd.minimal_trap_spaces())
    else:
        out["minimal"] = sorted(_cs(sd.node_data(i)["space"]) for i in sd.minimal_trap_spaces())
    return out


def digest(obj):
    return hashlib.sha256(json.dumps(obj, sort_keys=True, default=_default).encode()).hexdigest()[:16]


def _default(o):
    if isinstance(o, (set, frozenset)):
        return sorted(o)
    if isinstance(o, tuple):
        return list(o)
    return repr(o)


def structure(world):
    """Structure modulo ids and without attractor data: {space: (expanded, skipped, {(child space, motifs multiset)})}."""
    sd = world.sd
    res = {}
    for i in range(len(sd)):
        d = sd.node_data(i)
        succ = []
        for s in sd.dag.successors(i):
            e = sd.dag.edges[i, s]
            succ.append((_cs(sd.node_data(s)["space"]), tuple(sorted(_cs(m) for m in e["all_motifs"]))))
        res.setdefault(_cs(d["space"]), []).append((bool(d["expanded"]), bool(d["skipped"]), tuple(sorted(succ))))
    return res
