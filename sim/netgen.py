"""Workload generators: networks (swarm families), presentations, targets, knobs.

A *network description* is a JSON-able dict

    {"names": [str], "funcs": [[regs, tt], ...], "free": [i, ...],
     "fmt": "bnet" | "aeon" | "api", "order": [perm], "family": str}

`funcs[i] = [regs, tt]` is the truth table of variable i over its regulator list
(tt index bit j = value of regs[j]).  Variables listed in "free" are rendered as
free inputs (no update function); their truth table is the identity.
The reference model evaluates the truth tables directly; the text handed to
biobalm is *rendered from* the description.
"""

from __future__ import annotations

import json
import os

from .refmodel import Ref

CORPUS = os.path.join(os.path.dirname(os.path.dirname(os.path.abspath(__file__))), "corpus", "maa.json")

NAME_FAMILIES = ["v", "letters", "mixed", "nested"]
# names that are prefixes of each other up to an underscore, and names that look like the
# library's own internal identifiers (places b0_/b1_, transitions tr_<var>_<up|down>_<id>)
_NESTED = ["K", "K_p", "K_p_up", "Wnt", "Wnt_inh", "up", "tr", "b0", "b1_K", "K_up_1", "down_1", "Wnt_inh_2"]
_MIXED = ["x10", "x2", "Xa", "_y", "y_1", "Gene", "gene", "B0", "b1_z", "Q"]


def make_names(rng, n, family=None):
    if family is None:
        family = rng.choice(NAME_FAMILIES)
    if family == "v":
        return [f"v{i}" for i in range(n)]
    if family == "letters":
        return [chr(ord("A") + i) for i in range(n)]
    pool = list(_NESTED if family == "nested" else _MIXED)
    rng.shuffle(pool)
    return pool[:n]


# ------------------------------------------------------------------ families
def _rand_func(rng, n, kmax):
    k = rng.randint(1, min(kmax, n))
    regs = sorted(rng.sample(range(n), k))
    tt = [rng.randint(0, 1) for _ in range(1 << k)]
    return [regs, tt]


def fam_sparse(rng, n, p_input=0.1, p_const=0.05, kmax=3):
    funcs, free = [], []
    for i in range(n):
        r = rng.random()
        if r < p_input:
            funcs.append([[i], [0, 1]])
            if rng.random() < 0.5:
                free.append(i)
        elif r < p_input + p_const:
            funcs.append([[], [rng.randint(0, 1)]])
        else:
            funcs.append(_rand_func(rng, n, kmax))
    return funcs, free


def fam_dense(rng, n):
    funcs = []
    regs = list(range(n))
    for _ in range(n):
        funcs.append([regs[:], [rng.randint(0, 1) for _ in range(1 << n)]])
    return funcs, []


def _canal_tt(rng, k):
    """Nested canalising function over k inputs."""
    a = [rng.randint(0, 1) for _ in range(k)]  # canalising input values
    b = [rng.randint(0, 1) for _ in range(k)]  # canalised outputs
    default = rng.randint(0, 1)
    tt = []
    for idx in range(1 << k):
        out = default
        for j in range(k):
            if ((idx >> j) & 1) == a[j]:
                out = b[j]
                break
        tt.append(out)
    return tt


def fam_canal(rng, n, p_input=0.08):
    funcs, free = [], []
    for i in range(n):
        if rng.random() < p_input:
            funcs.append([[i], [0, 1]])
            if rng.random() < 0.5:
                free.append(i)
            continue
        k = rng.randint(1, min(3, n))
        regs = sorted(rng.sample(range(n), k))
        if rng.random() < 0.5:
            # monotone AND/OR of literals
            lits = [rng.randint(0, 1) for _ in range(k)]
            is_and = rng.random() < 0.5
            tt = []
            for idx in range(1 << k):
                vals = [((idx >> j) & 1) == lits[j] for j in range(k)]
                tt.append(int(all(vals) if is_and else any(vals)))
        else:
            tt = _canal_tt(rng, k)
        funcs.append([regs, tt])
    return funcs, free


def _shift(funcs, free, off):
    return [[[r + off for r in regs], tt] for regs, tt in funcs], [i + off for i in free]


def fam_modular(rng, nmax):
    """Disjoint unions / cascades of 2-3 small modules, plus inputs, constants, outputs."""
    nmods = rng.randint(2, 3)
    funcs, free = [], []
    for m in range(nmods):
        room = nmax - len(funcs) - (nmods - m - 1)
        if room < 1:
            break
        k = rng.randint(1, max(1, min(3, room)))
        fam = rng.choice(["sparse", "dense", "canal"])
        if fam == "dense":
            k = min(k, 3)
            f, fr = fam_dense(rng, k)
        elif fam == "canal":
            f, fr = fam_canal(rng, k, p_input=0.15)
        else:
            f, fr = fam_sparse(rng, k, p_input=0.15, p_const=0.05)
        off = len(funcs)
        f, fr = _shift(f, fr, off)
        # cascade: let one variable of this module additionally depend on an earlier module
        if off > 0 and rng.random() < 0.5:
            tgt = rng.randrange(len(f))
            regs, tt = f[tgt]
            src = rng.randrange(off)
            if src not in regs and (tgt + off) not in fr and len(regs) < 3:
                regs2 = regs + [src]
                tt2 = tt + [rng.randint(0, 1) for _ in range(len(tt))]
                f[tgt] = [regs2, tt2]
        funcs += f
        free += fr
    # a pure output
    if len(funcs) < nmax and rng.random() < 0.4:
        k = rng.randint(1, min(2, len(funcs)))
        regs = sorted(rng.sample(range(len(funcs)), k))
        funcs.append([regs, [rng.randint(0, 1) for _ in range(1 << k)]])
    return funcs, free


def _tt_of(fn, k):
    return [int(bool(fn(*[(idx >> j) & 1 for j in range(k)]))) for idx in range(1 << k)]


def fam_cascade(rng, nmax):
    """Cascade of small positive-feedback modules gated by upstream variables: deep
    diagrams in which the same node is reached along paths of different length and
    with transitive shortcut edges (a motif percolating into a sibling)."""
    funcs = []
    while len(funcs) < nmax:
        n0 = len(funcs)
        ups = list(range(n0))
        up = rng.choice(ups) if ups else None
        up2 = rng.choice(ups) if len(ups) > 1 else None
        kind = rng.choice(["switch", "latch", "latch", "gated_switch", "relay", "and_latch", "oscillator"])
        room = nmax - n0
        if kind in ("switch", "gated_switch") and room < 2:
            kind = "latch"
        if up is None and kind in ("relay",):
            kind = "switch" if room >= 2 else "latch"
        neg = rng.random() < 0.25
        if kind == "switch":
            a, b = n0, n0 + 1
            funcs.append([[b], [0, 1]])
            funcs.append([[a], [0, 1]])
        elif kind == "gated_switch":
            a, b = n0, n0 + 1
            if up is None:
                funcs.append([[b], [0, 1]])
            elif rng.random() < 0.5:
                funcs.append([[b, up], _tt_of(lambda y, u: y and (u != neg), 2)])
            else:
                funcs.append([[b, up], _tt_of(lambda y, u: y or (u != neg), 2)])
            funcs.append([[a], [0, 1]])
        elif kind == "latch":
            x = n0
            if up is None:
                funcs.append([[x], [0, 1]])
            elif rng.random() < 0.5:
                funcs.append([[x, up], _tt_of(lambda v, u: v or (u != neg), 2)])
            else:
                funcs.append([[x, up], _tt_of(lambda v, u: v and (u != neg), 2)])
        elif kind == "and_latch":
            x = n0
            if up is None or up2 is None or up2 == up:
                funcs.append([[x], [0, 1]])
            else:
                funcs.append([[x, up, up2], _tt_of(lambda v, u, w: (v or u) and w, 3)])
        elif kind == "oscillator":
            funcs.append([[n0], [1, 0]])  # x = !x: a source SCC that never stabilises
        else:  # relay
            funcs.append([[up], [1, 0] if neg else [0, 1]])
    return funcs[:nmax], []


_corpus_cache = None


def load_corpus():
    global _corpus_cache
    if _corpus_cache is None:
        try:
            with open(CORPUS) as fh:
                _corpus_cache = json.load(fh)
        except (OSError, ValueError):
            _corpus_cache = []
    return _corpus_cache


_sensitive_cache = None


def load_order_sensitive():
    """Indices of corpus cores whose reported seed depends on the solver's model order
    (tools/mine_sensitive.py); workload weighting only."""
    global _sensitive_cache
    if _sensitive_cache is None:
        try:
            with open(os.path.join(os.path.dirname(CORPUS), "maa_order_sensitive.json")) as fh:
                _sensitive_cache = [i for i in json.load(fh) if i < len(load_corpus())]
        except (OSError, ValueError):
            _sensitive_cache = []
    return _sensitive_cache


def fam_maa_deadpad(rng, nmax):
    """A mined motif-avoidant core whose every update function is gated by nk constants:
    f' = (K == live valuation) ? f : random alternative.  After percolating the constants
    the dynamics is the core's, but 1 - 2^-nk of the implicants are dead, so the Petri net of
    every node is a small fraction of the network's net (restricted-net code paths)."""
    corpus = load_corpus()
    sens = load_order_sensitive()
    if not corpus:
        return fam_sparse(rng, min(nmax, 5))
    nk = 2 if nmax >= 6 else 1
    fit = [i for i in range(len(corpus)) if len(corpus[i]) + nk <= nmax]
    fit_s = [i for i in sens if len(corpus[i]) + nk <= nmax]
    if not fit:
        return fam_maa(rng, nmax)
    core = corpus[rng.choice(fit_s) if fit_s and rng.random() < 0.7 else rng.choice(fit)]
    funcs = [[list(r), list(t)] for r, t in core]
    n0 = len(funcs)
    ks = []
    for _ in range(nk):
        ks.append(len(funcs))
        funcs.append([[], [rng.randint(0, 1)]])
    live = sum((funcs[k][1][0] << j) for j, k in enumerate(ks))
    for tgt in range(n0):
        regs, tt = funcs[tgt]
        if len(regs) + nk <= 5:
            blocks = []
            for b in range(1 << nk):
                blocks += tt if b == live else [rng.randint(0, 1) for _ in tt]
            funcs[tgt] = [regs + ks, blocks]
    room = nmax - len(funcs)
    if room > 0 and rng.random() < 0.4:
        f, fr = fam_sparse(rng, 1, p_input=0.3, p_const=0.0, kmax=1)
        f, fr = _shift(f, fr, len(funcs))
        funcs += f
        return funcs, fr
    return funcs, []


def fam_maa(rng, nmax):
    """Embedding of a mined motif-avoidant core: core + optional input / downstream / sibling."""
    corpus = load_corpus()
    if not corpus:
        return fam_sparse(rng, min(nmax, 5))
    core = rng.choice(corpus)
    funcs = [[list(r), list(t)] for r, t in core]
    free = []
    n0 = len(funcs)
    room = nmax - n0
    # sibling module (independent)
    if room > 0 and rng.random() < 0.5:
        k = rng.randint(1, min(2, room))
        f, fr = fam_sparse(rng, k, p_input=0.2, p_const=0.0, kmax=2)
        f, fr = _shift(f, fr, len(funcs))
        funcs += f
        free += fr
        room -= k
    # downstream variable
    if room > 0 and rng.random() < 0.5:
        k = rng.randint(1, min(2, len(funcs)))
        regs = sorted(rng.sample(range(len(funcs)), k))
        funcs.append([regs, [rng.randint(0, 1) for _ in range(1 << k)]])
        room -= 1
    # constants gating every core variable: f' = K ? f : alt with K a constant.  Half of the
    # implicants are dead after percolation, so the root's restricted Petri net is much
    # smaller than the network's net (exercises the restricted-net code paths on the MAA core)
    if room > 0 and rng.random() < 0.3:
        nk = rng.randint(1, min(2, room))
        ks = []
        for _ in range(nk):
            ks.append(len(funcs))
            funcs.append([[], [rng.randint(0, 1)]])
        room -= nk
        for tgt in range(n0):
            regs, tt = funcs[tgt]
            k = rng.choice(ks)
            if len(regs) < 4:
                kval = funcs[k][1][0]
                alt = [rng.randint(0, 1) for _ in range(len(tt))]
                # index bit of K is the highest: K=0 -> first half, K=1 -> second half
                funcs[tgt] = [regs + [k], (alt + tt) if kval == 1 else (tt + alt)]
    # an input gating one core variable: f' = in ? f : g
    if room > 0 and rng.random() < 0.4:
        i_in = len(funcs)
        funcs.append([[i_in], [0, 1]])
        if rng.random() < 0.5:
            free.append(i_in)
        tgt = rng.randrange(n0)
        regs, tt = funcs[tgt]
        if len(regs) < 4:
            alt = [rng.randint(0, 1) for _ in range(len(tt))] if rng.random() < 0.5 else tt[:]
            on_first = rng.random() < 0.5
            funcs[tgt] = [regs + [i_in], (alt + tt) if on_first else (tt + alt)]
    return funcs, free


def fam_maa_cascade(rng, nmax):
    """A mined motif-avoidant core next to an independent cascade of positive-feedback
    modules: every trap space of the cascade part contains a copy of the motif-avoidant
    attractor, so partially expanded / skipped diagrams have attractors outside the
    minimal trap spaces at every level."""
    corpus = load_corpus()
    small = [c for c in corpus if len(c) <= max(3, nmax - 2)]
    if not small:
        return fam_cascade(rng, nmax)
    core = rng.choice(small)
    funcs = [[list(r), list(t)] for r, t in core]
    n0 = len(funcs)
    room = nmax - n0
    if room > 0:
        f, _ = fam_cascade(rng, rng.randint(min(2, room), room))
        f, _ = _shift(f, [], n0)
        funcs += f
        # optionally let a cascade variable gate one core variable (f' = gate ? f : alt), so
        # that the motif-avoidant attractor only exists in some trap spaces of the cascade part
        if rng.random() < 0.5:
            gate = rng.randrange(n0, len(funcs))
            tgt = rng.randrange(n0)
            regs, tt = funcs[tgt]
            if len(regs) < 4 and gate not in regs:
                alt = [rng.randint(0, 1) for _ in range(len(tt))]
                funcs[tgt] = [regs + [gate], (alt + tt) if rng.random() < 0.5 else (tt + alt)]
    return funcs, []


def fam_rings(rng, nmax):
    """Several independent feedback rings (every ring is a source SCC of the interaction
    graph) plus an optional downstream reader of several rings.  With random names the
    variable indices of a ring are scattered, so whatever orders components by an incidental
    member or iteration order has something to get wrong."""
    sizes = []
    room = max(4, nmax)
    while room >= 2 and len(sizes) < 3:
        k = rng.choice([2, 2, 3]) if room >= 3 else 2
        sizes.append(k)
        room -= k
        if len(sizes) >= 2 and rng.random() < 0.3:
            break
    funcs = []
    for k in sizes:
        base = len(funcs)
        for i in range(k):
            src = base + (i - 1) % k
            funcs.append([[src], [0, 1] if rng.random() < 0.75 else [1, 0]])
    if room >= 1 and rng.random() < 0.5:
        k = rng.randint(2, min(3, len(funcs)))
        regs = sorted(rng.sample(range(len(funcs)), k))
        funcs.append([regs, [rng.randint(0, 1) for _ in range(1 << k)]])
    return funcs, []


def fam_osc_latches(rng, nmax):
    """An unconditional negative cycle (never stabilises) next to 2-4 latches
    `l = l | <monotone terms over other latches and oscillator phases>`: the root has
    several overlapping stable motifs, most of them non-minimal, and the candidate states of
    sibling nodes lie in their intersections -- the shape in which attractor-seed expansion
    declines a stub because a sibling was expanded first (order / resume sensitivity)."""
    k = 2 if nmax < 6 or rng.random() < 0.7 else 3
    funcs = []
    for i in range(k):
        src = (i - 1) % k
        funcs.append([[src], [1, 0] if i == 0 else [0, 1]])
    nl = max(2, min(nmax - k, rng.choice([2, 3, 3, 4])))
    lat = list(range(k, k + nl))
    for x in lat:
        terms = []
        for _ in range(rng.randint(1, 3)):
            pool = [v for v in lat if v != x] + list(range(k))
            t = sorted(rng.sample(pool, rng.randint(1, min(3, len(pool)))))
            pol = {v: (1 if v >= k or rng.random() < 0.7 else 0) for v in t}
            terms.append(pol)
        regs = sorted({x} | {v for t in terms for v in t})[:5]
        if x not in regs:
            regs = sorted(regs[:4] + [x])
        pos = {v: j for j, v in enumerate(regs)}
        tt = []
        for idx in range(1 << len(regs)):
            val = (idx >> pos[x]) & 1
            for t in terms:
                if all(v in pos for v in t) and all(((idx >> pos[v]) & 1) == b for v, b in t.items()):
                    val = 1
            tt.append(val)
        funcs.append([regs, tt])
    return funcs, []


def fam_inputs_mix(rng, nmax):
    """A small core read by and reading from: genuine inputs (free or `x = x`), constants,
    and *pseudo-inputs* — variables whose update function collapses to the identity only
    after a constant is percolated (`x = x & c`, `x = x | !c`, `x = c ? x : y`).  The places
    where 'source variable' means different things (network, percolated network, Petri
    net, cached restricted net) disagree on exactly these."""
    nmax = max(4, nmax)
    n_core = rng.randint(2, max(2, nmax - 3))
    funcs, free = fam_sparse(rng, n_core, p_input=0.0, p_const=0.0, kmax=2)
    specials = []
    room = nmax - n_core
    kinds = ["input", "const", "pseudo", "pseudo"]
    rng.shuffle(kinds)
    consts = []
    for kind in kinds[:room]:
        i = len(funcs)
        if kind == "input":
            funcs.append([[i], [0, 1]])
            if rng.random() < 0.5:
                free.append(i)
        elif kind == "const":
            funcs.append([[], [rng.randint(0, 1)]])
            consts.append(i)
        else:
            funcs.append(None)  # filled below, needs a constant
        specials.append(i)
    if not consts:
        for i in specials:
            if funcs[i] is None:
                funcs[i] = [[], [rng.randint(0, 1)]]
                consts.append(i)
                break
    for i in specials:
        if funcs[i] is None:
            if not consts:
                funcs[i] = [[i], [0, 1]]
                continue
            c = rng.choice(consts)
            cv = funcs[c][1][0]
            form = rng.choice(["and", "or", "mux"])
            lo, hi = (i, c) if i < c else (c, i)
            # truth table over sorted regs; bit j of the index is regs[j]
            def tt2(f):
                return [f(**{"x": (idx >> (0 if lo == i else 1)) & 1, "k": (idx >> (0 if lo == c else 1)) & 1}) for idx in range(4)]
            if form == "and":
                funcs[i] = [[lo, hi], tt2(lambda x, k: x & (k if cv else 1 - k))]
            elif form == "or":
                funcs[i] = [[lo, hi], tt2(lambda x, k: x | ((1 - k) if cv else k))]
            else:
                y = rng.randrange(n_core)
                regs = sorted({i, c, y})
                tt = []
                for idx in range(1 << len(regs)):
                    val = {r: (idx >> j) & 1 for j, r in enumerate(regs)}
                    tt.append(val[i] if val[c] == cv else val[y])
                funcs[i] = [regs, tt]
    # let the core read some of the specials
    for tgt in range(n_core):
        if specials and rng.random() < 0.6:
            regs, tt = funcs[tgt]
            g = rng.choice(specials)
            if g not in regs and len(regs) < 3:
                alt = [rng.randint(0, 1) for _ in tt]
                regs2 = regs + [g]
                funcs[tgt] = [regs2, (tt + alt) if rng.random() < 0.5 else (alt + tt)]
    return funcs, free


def fam_degenerate(rng, nmax):
    """Edge shapes: one-variable networks, only constants, only inputs, self-loops
    (x = x, x = !x), a single relay chain."""
    n = rng.randint(1, max(1, min(4, nmax)))
    funcs, free = [], []
    for i in range(n):
        k = rng.choice(["const0", "const1", "input", "free", "notself", "relay", "relay_neg"])
        if k == "const0":
            funcs.append([[], [0]])
        elif k == "const1":
            funcs.append([[], [1]])
        elif k == "input":
            funcs.append([[i], [0, 1]])
        elif k == "free":
            funcs.append([[i], [0, 1]])
            free.append(i)
        elif k == "notself":
            funcs.append([[i], [1, 0]])
        else:
            j = rng.randrange(n)
            funcs.append([[j], [0, 1] if k == "relay" else [1, 0]])
    return funcs, free


FAMILIES = ["sparse", "dense", "canal", "modular", "maa", "cascade", "maa_cascade", "degenerate", "maa_deadpad", "rings", "inputs_mix", "osc_latches"]


def gen_network(rng, weights=None, nmin=2, nmax=6, fmts=("bnet", "aeon"), names=None, shuffle_order=False):
    """Draw a family and an instance.  `weights` maps family -> weight."""
    if weights is None:
        weights = {"sparse": 4, "dense": 1, "canal": 2, "modular": 2, "maa": 1, "cascade": 2, "degenerate": 1}
    fams = [f for f in FAMILIES if weights.get(f, 0) > 0]
    fam = rng.choices(fams, [weights[f] for f in fams])[0]
    if fam == "sparse":
        n = rng.randint(nmin, nmax)
        funcs, free = fam_sparse(rng, n, p_input=rng.choice([0.0, 0.1, 0.2]))
    elif fam == "dense":
        n = rng.randint(min(nmin, 3), min(4, nmax))
        funcs, free = fam_dense(rng, n)
    elif fam == "canal":
        n = rng.randint(nmin, nmax)
        funcs, free = fam_canal(rng, n)
    elif fam == "modular":
        funcs, free = fam_modular(rng, nmax)
    elif fam == "degenerate":
        funcs, free = fam_degenerate(rng, nmax)
    elif fam == "maa_cascade":
        funcs, free = fam_maa_cascade(rng, nmax)
    elif fam == "maa_deadpad":
        funcs, free = fam_maa_deadpad(rng, nmax)
    elif fam == "rings":
        funcs, free = fam_rings(rng, nmax)
    elif fam == "inputs_mix":
        funcs, free = fam_inputs_mix(rng, nmax)
    elif fam == "osc_latches":
        funcs, free = fam_osc_latches(rng, max(nmax, 5))
    elif fam == "cascade":
        funcs, free = fam_cascade(rng, rng.randint(max(nmin, 3), nmax))
    else:
        funcs, free = fam_maa(rng, nmax)
    n = len(funcs)
    nm = make_names(rng, n, names)
    order = list(range(n))
    fmt = rng.choice(list(fmts))
    if shuffle_order and fmt == "api":
        rng.shuffle(order)
    net = {"names": nm, "funcs": funcs, "free": sorted(free), "fmt": fmt, "order": order, "family": fam}
    return normalize(net)


def normalize(net):
    """Make the description renderable: a free input must be an identity on itself and
    (for the aeon format) must regulate something, otherwise render it as `x, x`."""
    n = len(net["funcs"])
    net["funcs"] = [reduce_func(r, t) for r, t in net["funcs"]]
    free = []
    used = set()
    for i, (regs, tt) in enumerate(net["funcs"]):
        for r in regs:
            if r != i:
                used.add(r)
    for i in net["free"]:
        regs, tt = net["funcs"][i]
        if regs == [i] and tt == [0, 1] and i in used:
            free.append(i)
    net["free"] = free
    return net


def reduce_func(regs, tt):
    """Project the truth table onto its essential regulators."""
    regs = list(regs)
    tt = list(tt)
    j = 0
    while j < len(regs):
        if any(tt[idx] != tt[idx ^ (1 << j)] for idx in range(len(tt))):
            j += 1
            continue
        tt = [tt[idx] for idx in range(len(tt)) if not (idx >> j) & 1]
        regs = regs[:j] + regs[j + 1 :]
    return [regs, tt]


def net_to_ref(net):
    return Ref([(r, t) for r, t in net["funcs"]], net["names"])


# ----------------------------------------------------------------- rendering
def _expr(names, regs, tt):
    if not regs:
        return "true" if tt[0] else "false"
    if all(tt):
        return "true"
    if not any(tt):
        return "false"
    terms = []
    for idx, val in enumerate(tt):
        if val:
            lits = [(names[r] if (idx >> j) & 1 else "!" + names[r]) for j, r in enumerate(regs)]
            terms.append("(" + " & ".join(lits) + ")")
    return " | ".join(terms)


def _essential_regs(regs, tt):
    ess = []
    for j, r in enumerate(regs):
        if any(tt[idx] != tt[idx ^ (1 << j)] for idx in range(len(tt))):
            ess.append(r)
    return ess


def render_bnet(net):
    names = net["names"]
    lines = ["targets, factors"]
    for i in net["order"]:
        if i in net["free"]:
            continue  # appears only as a regulator -> AEON makes it a free input
        regs, tt = net["funcs"][i]
        lines.append(f"{names[i]}, {_expr(names, regs, tt)}")
    return "\n".join(lines) + "\n"


def render_aeon(net):
    names = net["names"]
    lines = []
    for i in net["order"]:
        regs, tt = net["funcs"][i]
        if i in net["free"]:
            continue
        ess = _essential_regs(regs, tt)
        for r in ess:
            lines.append(f"{names[r]} -? {names[i]}")
        lines.append(f"${names[i]}: {_expr(names, regs, tt)}")
    return "\n".join(lines) + "\n"


def build_network(net):
    """Return a biodivine_aeon.BooleanNetwork for the description."""
    from biodivine_aeon import BooleanNetwork

    fmt = net["fmt"]
    if fmt == "bnet":
        return BooleanNetwork.from_bnet(render_bnet(net))
    if fmt == "aeon":
        return BooleanNetwork.from_aeon(render_aeon(net))
    names = net["names"]
    bn = BooleanNetwork([names[i] for i in net["order"]])
    for i in net["order"]:
        regs, tt = net["funcs"][i]
        if i in net["free"]:
            continue
        for r in _essential_regs(regs, tt):
            bn.add_regulation({"source": names[r], "target": names[i], "essential": True, "sign": None})
    for i in net["order"]:
        regs, tt = net["funcs"][i]
        if i in net["free"]:
            continue
        bn.set_update_function(names[i], _expr(names, regs, tt))
    return bn


# ----------------------------------------------------------- targets / knobs
def gen_target(rng, ref):
    """Random target subspace (dict).  Biased toward minimal trap spaces."""
    n = ref.n
    r = rng.random()
    if r < 0.45 and ref.minimal_traps():
        m = rng.choice(ref.minimal_traps())
        t = ref.mv2sp(m)
        for k in sorted(t):
            if rng.random() < 0.3:
                del t[k]
        if t:
            return t
    if r < 0.6:
        traps = ref.all_traps()
        if traps:
            t = ref.mv2sp(rng.choice(traps))
            if t:
                return t
    k = rng.randint(1, n)
    return {ref.names[i]: rng.randint(0, 1) for i in sorted(rng.sample(range(n), k))}


DEFAULT_CONFIG = {
    "debug": False,
    "max_motifs_per_node": 100_000,
    "nfvs_size_threshold": 2_000,
    "pint_goal_size_limit": 8_192,
    "attractor_candidates_limit": 100_000,
    "retained_set_optimization_threshold": 1_000,
    "minimum_simulation_budget": 1_000,
}


def gen_knobs(rng, which=("attractor_candidates_limit", "retained_set_optimization_threshold", "minimum_simulation_budget", "nfvs_size_threshold"), p=0.5):
    cfg = dict(DEFAULT_CONFIG)
    for k in which:
        if rng.random() < p:
            if k == "minimum_simulation_budget":
                cfg[k] = rng.choice([0, 1, 10, 100, 1000])
            elif k == "nfvs_size_threshold":
                cfg[k] = rng.choice([0, 1, 2, 3, 5, 2000])
            else:
                cfg[k] = rng.choice([0, 1, 2, 3, 4, 5, 8, 1000])
    return cfg
