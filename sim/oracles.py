"""Oracles shared by the attractor-related machines (explicit-state reference)."""

from __future__ import annotations

from .machine import viol


def own_of(world, nid):
    return world.ref.own(world.node_mv(nid), world.succ_mvs(nid))


def inside_of(world, nid):
    ref = world.ref
    mv = world.node_mv(nid)
    return [k for k in range(len(ref.attractors())) if ref.att_inside(k, mv)]


def states_of(world, canon_list):
    """canonical list-of-pairs states -> list of (int|None)."""
    res = []
    for c in canon_list:
        res.append(world.ref.state2int({k: v for k, v in c}))
    return res


def check_seeds(world, prop, nid, seeds, step, site, exact=True, in_successor_ok=False, what="seeds"):
    """seeds: canonical list (list of [[name, val], ...]).  Returns (violations, hits)
    where hits is the list of attractor indices (one per seed)."""
    ref = world.ref
    node_mv = world.node_mv(nid)
    succ = world.succ_mvs(nid)
    sp = world.space_of(nid)
    hits = []
    for c in seeds:
        s = ref.state2int({k: v for k, v in c})
        if s is None:
            return [viol(prop, f"{what}_not_full_state", step, {"node": sp, "seed": c}, site)], hits
        if not ref.in_space(s, node_mv):
            return [viol(prop, f"{what}_outside_node", step, {"node": sp, "seed": c}, site)], hits
        k = ref.attractor_index_of(s)
        if k is None:
            return [viol(prop, f"{what}_not_in_attractor", step, {"node": sp, "seed": c}, site)], hits
        if not ref.att_inside(k, node_mv):
            return [viol(prop, f"{what}_attractor_not_inside_node", step, {"node": sp, "seed": c}, site)], hits
        if not in_successor_ok and any(ref.att_inside(k, m) for m in succ):
            return [viol(prop, f"{what}_attractor_inside_successor", step, {"node": sp, "seed": c}, site)], hits
        if k in hits:
            return [viol(prop, f"{what}_duplicate_attractor", step, {"node": sp, "seed": c}, site)], hits
        hits.append(k)
    if exact:
        own = ref.own(node_mv, succ)
        missing = [k for k in own if k not in hits]
        if missing:
            return [
                viol(
                    prop,
                    f"{what}_attractor_missed",
                    step,
                    {"node": sp, "missing": [sorted(ref.attractors()[k])[:4] for k in missing], "seeds": seeds, "expanded": bool(world.sd.node_data(nid)["expanded"])},
                    site,
                )
            ], hits
    return [], hits


def check_candidates(world, prop, nid, cands, step, site, exempt=None, what="candidates", outside_successors=False):
    """Candidates must be full states inside the node and hit every attractor of own(node)
    (minus `exempt` attractor indices).  outside_successors: additionally, no candidate lies
    inside a successor (what an expanded ordinary node's search guarantees by construction,
    so a candidate there can only be a leftover from before the node had successors)."""
    ref = world.ref
    node_mv = world.node_mv(nid)
    sp = world.space_of(nid)
    hit = set()
    succ_mvs = [world.node_mv(s) for s in world.sd.node_successors(nid, compute=False)] if outside_successors else []
    for c in cands:
        s = ref.state2int({k: v for k, v in c})
        if s is None:
            return [viol(prop, f"{what}_not_full_state", step, {"node": sp, "candidate": c}, site)]
        if not ref.in_space(s, node_mv):
            return [viol(prop, f"{what}_outside_node", step, {"node": sp, "candidate": c}, site)]
        if any(ref.in_space(s, m) for m in succ_mvs):
            return [viol(prop, f"{what}_inside_successor", step, {"node": sp, "candidate": c}, site)]
        k = ref.attractor_index_of(s)
        if k is not None:
            hit.add(k)
    own = own_of(world, nid)
    missing = [k for k in own if k not in hit and not (exempt and k in exempt)]
    if missing:
        return [
            viol(
                prop,
                f"{what}_miss_attractor",
                step,
                {"node": sp, "missing": [sorted(ref.attractors()[k])[:4] for k in missing], "candidates": cands, "expanded": bool(world.sd.node_data(nid)["expanded"]), "skipped": bool(world.sd.node_data(nid)["skipped"])},
                site,
            )
        ]
    return []


def check_sets(world, prop, nid, seeds, sets, step, site, what="sets"):
    """sets[i] (sorted list of state ints) must equal the attractor containing seeds[i]."""
    ref = world.ref
    sp = world.space_of(nid)
    if len(seeds) != len(sets):
        return [viol(prop, f"{what}_length_differs_from_seeds", step, {"node": sp, "seeds": len(seeds), "sets": len(sets)}, site)]
    for c, st in zip(seeds, sets):
        s = ref.state2int({k: v for k, v in c})
        k = ref.attractor_index_of(s) if s is not None else None
        if k is None:
            return [viol(prop, f"{what}_seed_not_in_attractor", step, {"node": sp, "seed": c}, site)]
        if sorted(ref.attractors()[k]) != list(st):
            return [viol(prop, f"{what}_not_the_attractor_of_seed", step, {"node": sp, "seed": c, "set": list(st)[:16], "attractor": sorted(ref.attractors()[k])[:16]}, site)]
    return []


def skip_exempt(world, nid):
    """Documented exemption for skip nodes: attractors inside the intersection with a
    non-ancestor node whose cached candidates/seeds are [] at call time."""
    sd = world.sd
    ref = world.ref
    d = sd.node_data(nid)
    if not d["skipped"]:
        return set()
    node_mv = world.node_mv(nid)
    ex = set()
    for n in world.node_ids():
        nd = sd.node_data(n)
        n_mv = world.node_mv(n)
        if ref.subspace(node_mv, n_mv):
            continue
        if nd["attractor_candidates"] == [] or nd["attractor_seeds"] == []:
            common = ref.union(node_mv, n_mv)
            if common is not None:
                for k in range(len(ref.attractors())):
                    if ref.att_inside(k, common):
                        ex.add(k)
    return ex
