"""Seams the simulator owns.  Nothing in /repo is edited: every seam is a module
attribute of biobalm that the harness rebinds (see DESIGN.md §2.2).

  S-clingo  biobalm.trappist_core.Control / SolveHandle   -> SimControl
  S-random  biobalm._sd_attractors.attractor_candidates.random -> RandomShim
  S-clock   sys.monitoring back-edge + call counter in biobalm code
  S-probe   sys.monitoring LINE events (first hit per location) for reach evidence
"""

from __future__ import annotations

import os
import random as _stdrandom
import sys

BIOBALM_SRC = os.environ.get("BIOBALM_SRC", "/repo")
if BIOBALM_SRC not in sys.path:
    sys.path.insert(0, BIOBALM_SRC)

import clingo  # noqa: E402

import biobalm  # noqa: E402
import biobalm.trappist_core as TC  # noqa: E402
import biobalm._sd_attractors.attractor_candidates as AC  # noqa: E402

_SRC_PREFIX = os.path.join(os.path.realpath(os.path.dirname(biobalm.__file__)), "")


class InjectedSolverFailure(RuntimeError):
    """Raised by SimControl.  A RuntimeError, as clingo's own failures are."""


class InjectedMemoryFailure(MemoryError):
    """The other way clingo fails (std::bad_alloc surfaces as MemoryError): not a
    RuntimeError, so the `except RuntimeError` absorbers of biobalm do not catch it."""


class WorkBudgetExceeded(BaseException):
    """Raised from the monitoring callback.  BaseException so that no `except
    RuntimeError` / `except Exception` in the code under test can swallow it."""

    def __init__(self, where):
        super().__init__(where)
        self.where = where


# --------------------------------------------------------------------- clingo
class SolverState:
    """Fault plan + counters shared by every SimControl of the current operation."""

    def __init__(self):
        self.reset()

    def reset(self):
        self.points = 0  # fault points passed during the current op
        self.calls = 0  # Control() constructions during the current op
        self.models = 0
        self.fail_at = None  # fault point number at which to raise (1-based), or None
        self.fail_kinds = None  # restrict to kinds, e.g. {"solve"}
        self.fail_exc = "runtime"  # or "memory"
        self.fired = []  # (point, kind) of injected failures
        self.reorder_rng = None  # random.Random or None
        self.reordered = 0
        self.kinds = []  # kind of each fault point (for enumeration)
        self.record_kinds = False

    def begin_op(self):
        self.points = 0
        self.calls = 0
        self.models = 0
        self.fired = []
        self.reordered = 0
        self.kinds = []

    def point(self, kind):
        self.points += 1
        if self.record_kinds:
            self.kinds.append(kind)
        if self.fail_at is not None and self.points == self.fail_at:
            if self.fail_kinds is None or kind in self.fail_kinds:
                self.fired.append((self.points, kind))
                if self.fail_exc == "memory":
                    raise InjectedMemoryFailure(f"injected solver failure #{self.points} ({kind}, bad_alloc)")
                raise InjectedSolverFailure(f"injected solver failure #{self.points} ({kind})")


SOLVER = SolverState()


class _FakeModel:
    __slots__ = ("_syms",)

    def __init__(self, syms):
        self._syms = syms

    def symbols(self, atoms=False, **kw):
        return list(self._syms)


class SimSolveHandle:
    """Stands in for clingo.SolveHandle: delivers the real model stream, either
    lazily in solver order with a fault point before each model, or (reorder mode)
    drained and permuted."""

    def __init__(self, real):
        self._real = real
        self._iter = None

    def __enter__(self):
        self._real.__enter__()
        return self

    def __exit__(self, *a):
        return self._real.__exit__(*a)

    def __iter__(self):
        if SOLVER.reorder_rng is not None:
            models = [_FakeModel(list(m.symbols(atoms=True))) for m in self._real]
            if len(models) > 1:
                SOLVER.reorder_rng.shuffle(models)
                SOLVER.reordered += 1
            for m in models:
                SOLVER.point("model")
                SOLVER.models += 1
                yield m
        else:
            for m in self._real:
                SOLVER.point("model")
                SOLVER.models += 1
                yield m


MAX_SOLVER_CALLS_PER_OP = 4000  # second component of the simulated clock: clingo programs built by one operation


class SimControl:
    def __init__(self, *a, **k):
        SOLVER.calls += 1
        if CLOCK.limit is not None and SOLVER.calls > MAX_SOLVER_CALLS_PER_OP:
            # a loop that makes no progress but spends its time inside the solver executes few
            # Python back-edges per second; the number of solver programs bounds it instead
            CLOCK.limit = None
            raise WorkBudgetExceeded("trappist_core.py:Control (solver calls)")
        SOLVER.point("control")
        self._c = clingo.Control(*a, **k)

    def add(self, *a, **k):
        return self._c.add(*a, **k)

    def ground(self, *a, **k):
        SOLVER.point("ground")
        return self._c.ground(*a, **k)

    def solve(self, *a, **k):
        SOLVER.point("solve")
        r = self._c.solve(*a, **k)
        if isinstance(r, clingo.SolveHandle):
            return SimSolveHandle(r)
        return r


# --------------------------------------------------------------------- random
class RandomShim:
    """Stands in for the stdlib `random` module inside attractor_candidates.
    faithful mode: Random(seed) == random.Random(seed) (the shipped 123).
    walk mode: Random(seed) -> random.Random(f(walk_seed, call_no))."""

    def __init__(self):
        self.walk_seed = None
        self.calls = 0

    def Random(self, seed=None):
        self.calls += 1
        if self.walk_seed is None:
            return _stdrandom.Random(seed)
        return _stdrandom.Random(f"{self.walk_seed}/{self.calls}")

    def __getattr__(self, name):
        return getattr(_stdrandom, name)


RANDOM = RandomShim()


# ---------------------------------------------------------------------- clock
class Clock:
    TOOL = 3

    def __init__(self):
        self.count = 0
        self.limit = None
        self.installed = False
        self.lines = None  # set of (filename, lineno) when probing
        self.op_lines = None

    def install(self, probe=False):
        if self.installed:
            return
        mon = sys.monitoring
        mon.use_tool_id(self.TOOL, "biosim")
        ev = mon.events
        mon.register_callback(self.TOOL, ev.JUMP, self._on_jump)
        mon.register_callback(self.TOOL, ev.BRANCH, self._on_jump)
        mon.register_callback(self.TOOL, ev.PY_START, self._on_start)
        events = ev.JUMP | ev.BRANCH | ev.PY_START
        if probe:
            self.lines = set()
            mon.register_callback(self.TOOL, ev.LINE, self._on_line)
            events |= ev.LINE
        mon.set_events(self.TOOL, events)
        self.installed = True

    def _on_jump(self, code, off, dest, _p=_SRC_PREFIX):
        if not code.co_filename.startswith(_p):
            return sys.monitoring.DISABLE
        if dest < off:
            self.count += 1
            if self.limit is not None and self.count > self.limit:
                self.limit = None  # raise once
                raise WorkBudgetExceeded(f"{os.path.basename(code.co_filename)}:{code.co_name}")

    def _on_start(self, code, off, _p=_SRC_PREFIX):
        if not code.co_filename.startswith(_p):
            return sys.monitoring.DISABLE
        self.count += 1
        if self.limit is not None and self.count > self.limit:
            self.limit = None
            raise WorkBudgetExceeded(f"{os.path.basename(code.co_filename)}:{code.co_name}")

    def _on_line(self, code, line, _p=_SRC_PREFIX):
        if code.co_filename.startswith(_p):
            self.lines.add((os.path.basename(code.co_filename), line))
        return sys.monitoring.DISABLE

    def start(self, limit):
        self.count = 0
        self.limit = limit

    def stop(self):
        self.limit = None
        return self.count


CLOCK = Clock()

_installed = False


def install(probe=False):
    """Rebind the seams (idempotent)."""
    global _installed
    if not _installed:
        TC.Control = SimControl
        TC.SolveHandle = (clingo.SolveHandle, SimSolveHandle)
        AC.random = RANDOM
        _installed = True
    CLOCK.install(probe=probe)


def reset_faults():
    SOLVER.reset()
    RANDOM.walk_seed = None
    RANDOM.calls = 0


def reach_tags():
    """Mechanism tags (function-independent: matched by distinctive source text) that
    were executed so far, from the LINE probe.  Returns {tag: bool}."""
    if CLOCK.lines is None:
        return {}
    return {t: _tag_hit(t) for t in TAGS}


TAGS = {
    # tag: (file, distinctive source text on the executed line)
    "cand.regenerate_retained_set": ("attractor_candidates.py", "retained_set[var] = 0"),
    "cand.skip_intersection": ("attractor_candidates.py", "child_motifs_reduced.append(reduced_subspace)"),
    "cand.empty_nfvs_nonminimal": ("attractor_candidates.py", "return []"),
    "cand.greedy_improved": ("attractor_candidates.py", "retained_set = retained_set_2"),
    "cand.simulation_avoid": ("attractor_candidates.py", "filtered_candidates.append(valuation_to_state(symbolic_ctx, simulation))"),
    "cand.simulation_minimal": ("attractor_candidates.py", "new_candidates_bdd = new_candidates_bdd.l_or(Bdd(simulation))"),
    "sym.closure_found": ("attractor_symbolic.py", "sets.append(closure)"),
    "sym.candidate_rejected": ("attractor_symbolic.py", "return None"),
    "sym.fallback": ("attractor_symbolic.py", "attractors = Attractors.xie_beerel(sd.symbolic, candidates)"),
    "sym.last_candidate_shortcut": ("attractor_symbolic.py", "return ([candidate | node_space], None)"),
    "sd.global_pn_branch": ("succession_diagram.py", "ensure_subspace=current_space,"),
    "sd.percolated_pn_branch": ("succession_diagram.py", "sub_spaces = [(s | current_space) for s in partial_sub_spaces]"),
    "sd.edge_second_motif": ("succession_diagram.py", 'self.dag.edges[parent_id, child_id]["all_motifs"].append(stable_motif)'),
    "sd.skip_to_minimal": ("succession_diagram.py", 'node["skipped"] = True'),
    "block.source_shortcut": ("expand_source_blocks.py", "next_level.add(sd._ensure_node(node, sub_space))"),
    "block.clean_block": ("expand_source_blocks.py", "clean_block_found = True"),
    "block.no_clean_block": ("expand_source_blocks.py", "next_level = next_level | set(successors)"),
    "scc.attach": ("expand_source_SCCs.py", "sd._ensure_edge(main_node_id, main_succ_id, inner_stable_motif)"),
    "scc.root_sources": ("expand_source_SCCs.py", "next_level.add(sd._ensure_node(root, sub_space))"),
    "min.make_skip_node": ("expand_minimal_spaces.py", 'node["skipped"] = True'),
    "aseeds.pruned_successor": ("expand_attractor_seeds.py", "successors.pop()"),
    "control.feedforward_skip": ("control.py", "skip_completely = True"),
    "control.driver_found": ("control.py", "drivers.append(driver_dict)"),
}

_src_cache = {}


def _file_lines(fname):
    if fname not in _src_cache:
        path = None
        for root, _dirs, files in os.walk(_SRC_PREFIX):
            if fname in files:
                path = os.path.join(root, fname)
                break
        try:
            with open(path) as fh:
                _src_cache[fname] = fh.read().split("\n")
        except (OSError, TypeError):
            _src_cache[fname] = []
    return _src_cache[fname]


def _tag_hit(tag, lines=None):
    fname, text = TAGS[tag]
    src = _file_lines(fname)
    use = CLOCK.lines if lines is None else lines
    for f, ln in use:
        if f == fname and 0 < ln <= len(src) and text in src[ln - 1]:
            return True
    return False
