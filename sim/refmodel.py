"""Explicit-state reference model (the oracle for absolute claims).

Shares nothing with the code under test: no AEON, no BDDs, no clingo, no Petri
nets.  A network is a list of (regulator indices, truth table) pairs; states are
integers 0 .. 2^n-1 (bit i = value of variable i); a subspace is a pair
(mask, val) with val & ~mask == 0.
"""

from __future__ import annotations

import itertools


class Ref:
    def __init__(self, funcs, names=None):
        """funcs: list of (regs, tt); tt indexed by sum(bit_j << j) over regs[j]."""
        self.funcs = [(list(r), list(t)) for r, t in funcs]
        self.n = n = len(funcs)
        self.N = 1 << n
        self.names = list(names) if names is not None else [f"v{i}" for i in range(n)]
        self.idx = {nm: i for i, nm in enumerate(self.names)}
        self.f = [[0] * self.N for _ in range(n)]
        for i, (regs, tt) in enumerate(self.funcs):
            fi = self.f[i]
            for s in range(self.N):
                k = 0
                for j, r in enumerate(regs):
                    if (s >> r) & 1:
                        k |= 1 << j
                fi[s] = tt[k]
        self.succ = [
            [s ^ (1 << i) for i in range(n) if self.f[i][s] != ((s >> i) & 1)]
            for s in range(self.N)
        ]
        self._attractors = None
        self._att_of = None
        self._traps = None
        self._min = None

    # ---------------------------------------------------------------- spaces
    def sp2mv(self, space):
        """dict name->0/1  ->  (mask, val).  Unknown names raise KeyError."""
        m = v = 0
        for k, x in space.items():
            i = self.idx[k]
            m |= 1 << i
            if x:
                v |= 1 << i
        return (m, v)

    def mv2sp(self, mv):
        m, v = mv
        return {self.names[i]: (v >> i) & 1 for i in range(self.n) if (m >> i) & 1}

    def state2int(self, state):
        """Full state dict -> int, or None if not a full, well-formed state."""
        if not isinstance(state, dict) or len(state) != self.n:
            return None
        s = 0
        for k, x in state.items():
            if k not in self.idx or x not in (0, 1):
                return None
            if x:
                s |= 1 << self.idx[k]
        return s

    def int2state(self, s):
        return {self.names[i]: (s >> i) & 1 for i in range(self.n)}

    def states(self, mv):
        mask, val = mv
        free = [i for i in range(self.n) if not (mask >> i) & 1]
        for bits in range(1 << len(free)):
            s = val
            for j, i in enumerate(free):
                if (bits >> j) & 1:
                    s |= 1 << i
            yield s

    @staticmethod
    def subspace(a, b):
        """a is a subspace of b."""
        return (a[0] & b[0]) == b[0] and (a[1] & b[0]) == b[1]

    @staticmethod
    def in_space(s, mv):
        return (s & mv[0]) == mv[1]

    @staticmethod
    def union(a, b):
        """Intersection of the two spaces (union of constraints) or None."""
        if (a[1] ^ b[1]) & a[0] & b[0]:
            return None
        return (a[0] | b[0], a[1] | b[1])

    def is_trap(self, mv):
        mask, val = mv
        fixed = [i for i in range(self.n) if (mask >> i) & 1]
        for s in self.states(mv):
            for i in fixed:
                if self.f[i][s] != ((val >> i) & 1):
                    return False
        return True

    def percolate(self, mv):
        """Least fixed point of value propagation; given values are kept."""
        m, v = mv
        ch = True
        while ch:
            ch = False
            for i in range(self.n):
                if (m >> i) & 1:
                    continue
                vals = set(self.f[i][s] for s in self.states((m, v)))
                if len(vals) == 1:
                    c = vals.pop()
                    m |= 1 << i
                    v |= c << i
                    ch = True
        return (m, v)

    def all_traps(self):
        if self._traps is None:
            res = []
            for assign in itertools.product((0, 1, 2), repeat=self.n):
                mask = val = 0
                for i, a in enumerate(assign):
                    if a < 2:
                        mask |= 1 << i
                        val |= a << i
                if self.is_trap((mask, val)):
                    res.append((mask, val))
            self._traps = res
        return self._traps

    def minimal_traps(self):
        if self._min is None:
            traps = self.all_traps()
            self._min = [
                t for t in traps if not any(u != t and self.subspace(u, t) for u in traps)
            ]
        return self._min

    def source_vars(self):
        """Variables that no transition ever changes and that are not constant."""
        res = []
        for i in range(self.n):
            if all(self.f[i][s] == ((s >> i) & 1) for s in range(self.N)):
                res.append(i)
        return res

    # ------------------------------------------------------------ attractors
    def attractors(self):
        if self._attractors is None:
            self._attractors = terminal_sccs(self.N, self.succ)
            self._att_of = {}
            for k, a in enumerate(self._attractors):
                for s in a:
                    self._att_of[s] = k
        return self._attractors

    def attractor_index_of(self, s):
        self.attractors()
        return self._att_of.get(s)

    def att_inside(self, k, mv):
        return all(self.in_space(s, mv) for s in self.attractors()[k])

    def own(self, node_mv, succ_mvs):
        """Indices of attractors inside node_mv and inside no successor space."""
        res = []
        for k in range(len(self.attractors())):
            if self.att_inside(k, node_mv) and not any(
                self.att_inside(k, s) for s in succ_mvs
            ):
                res.append(k)
        return res

    def maa(self):
        """Indices of motif-avoidant attractors (inside no minimal trap space)."""
        mins = self.minimal_traps()
        return [
            k
            for k in range(len(self.attractors()))
            if not any(self.att_inside(k, m) for m in mins)
        ]

    # --------------------------------------------------------------- control
    def override(self, o_mv):
        """Network with the update functions of the variables in o replaced by constants."""
        m, v = o_mv
        funcs = []
        for i, (regs, tt) in enumerate(self.funcs):
            if (m >> i) & 1:
                funcs.append(([], [(v >> i) & 1]))
            else:
                funcs.append((regs, tt))
        return Ref(funcs, self.names)

    def forward(self, init):
        seen = set(init)
        stack = list(seen)
        while stack:
            s = stack.pop()
            for w in self.succ[s]:
                if w not in seen:
                    seen.add(w)
                    stack.append(w)
        return seen


def terminal_sccs(N, succ):
    index = [-1] * N
    low = [0] * N
    on = [False] * N
    st = []
    comp = [-1] * N
    idx = 0
    comps = []
    for root in range(N):
        if index[root] != -1:
            continue
        work = [(root, 0)]
        while work:
            v, pi = work.pop()
            if pi == 0:
                index[v] = low[v] = idx
                idx += 1
                st.append(v)
                on[v] = True
            rec = False
            sv = succ[v]
            for k in range(pi, len(sv)):
                w = sv[k]
                if index[w] == -1:
                    work.append((v, k + 1))
                    work.append((w, 0))
                    rec = True
                    break
                elif on[w]:
                    low[v] = min(low[v], index[w])
            if rec:
                continue
            if low[v] == index[v]:
                c = []
                while True:
                    w = st.pop()
                    on[w] = False
                    comp[w] = len(comps)
                    c.append(w)
                    if w == v:
                        break
                comps.append(c)
            if work:
                u = work[-1][0]
                low[u] = min(low[u], low[v])
    res = []
    for ci, c in enumerate(comps):
        if all(comp[w] == ci for v in c for w in succ[v]):
            res.append(frozenset(c))
    res.sort(key=lambda a: min(a))
    return res
