"""Proving the simulator itself: determinism and sensitivity (DESIGN.md §3)."""

from __future__ import annotations

import concurrent.futures as cf
import glob
import json
import multiprocessing as mp
import os
import shutil
import subprocess
import sys
import tempfile
import time

ROOT = os.path.dirname(os.path.dirname(os.path.abspath(__file__)))


def _digest_task(args):
    prop, seed, tier = args
    from .runner import run_one

    r = run_one(prop, seed, tier)
    return [seed, r.get("log_digest"), r.get("state_digest"), [[v["invariant"], v.get("site")] for v in r["violations"]], r.get("harness_error")]


def digests(prop, n, tier="quick", workers=1, offset=0):
    from .runner import run_seed_of, worker_init

    seeds = [run_seed_of(prop, "selftest", i) for i in range(offset, offset + n)]
    if workers <= 1:
        return [_digest_task((prop, s, tier)) for s in seeds]
    with cf.ProcessPoolExecutor(max_workers=workers, mp_context=mp.get_context("fork"), initializer=worker_init) as ex:
        return list(ex.map(_digest_task, [(prop, s, tier) for s in seeds], chunksize=4))


def digests_main(prop, n, workers):
    worker_quiet()
    d = digests(prop, n, workers=workers)
    print("DIGESTS " + json.dumps(d))
    return 0


def worker_quiet():
    try:
        devnull = os.open(os.devnull, os.O_WRONLY)
        os.dup2(devnull, 2)
    except OSError:
        pass


def _sub(prop, n, hashseed, workers):
    env = dict(os.environ)
    env["PYTHONHASHSEED"] = hashseed
    p = subprocess.run([sys.executable, os.path.join(ROOT, "check"), prop, "--digests", str(n), "--workers", str(workers)], capture_output=True, text=True, env=env, cwd=ROOT, timeout=3600)
    for line in p.stdout.splitlines():
        if line.startswith("DIGESTS "):
            return json.loads(line[8:])
    raise RuntimeError(f"no digests from child ({hashseed}): {p.stdout[-300:]} {p.stderr[-300:]}")


def determinism(a):
    from .runner import PROPS

    props = PROPS if not a.props else [p.upper() for p in a.props.split(",")]
    n = a.runs or 300
    bad = 0
    t0 = time.time()
    for prop in props:
        nn = n if prop not in ("C15", "C19") else max(20, n // 8)
        base = _sub(prop, nn, "0", 16)
        runs = {
            "same interpreter settings, 1 worker": _sub(prop, nn, "0", 1),
            "PYTHONHASHSEED=1, 16 workers": _sub(prop, nn, "1", 16),
            "PYTHONHASHSEED=4242, 7 workers": _sub(prop, nn, "4242", 7),
        }
        diffs = 0
        for label, other in runs.items():
            for x, y in zip(base, other):
                if x != y:
                    diffs += 1
                    if diffs <= 3:
                        print(f"DIVERGENCE {prop} [{label}] seed={x[0]}: {x[1:]} vs {y[1:]}")
        herr = sum(1 for x in base if x[4])
        print(f"determinism {prop}: {nn} seeds x 4 executions, divergences={diffs}, harness_errors={herr}", flush=True)
        bad += diffs + herr
    print(f"selftest-determinism: {'OK' if not bad else 'FAILED'} in {time.time() - t0:.0f}s")
    return 0 if not bad else 2


def mutants(a):
    """Sensitivity: every catalogued breaking change must make the owning check fail."""
    cat = {}
    with open(os.path.join(ROOT, "mutants", "catalogue.json")) as fh:
        for k, v in json.load(fh).items():
            cat[os.path.join(ROOT, "mutants", k)] = v
    for meta in sorted(glob.glob(os.path.join(ROOT, "seeded", "*", "meta.json"))):
        with open(meta) as fh:
            m = json.load(fh)
        cat[os.path.join(os.path.dirname(meta), "patch.diff")] = {"properties": m.get("detected_by") or [m["property"]], "what": m.get("what", ""), "expected_missed": bool(m.get("expected_missed_at_quick_tier"))}
    only = a.props.split(",") if a.props else None
    missed = []
    t0 = time.time()
    for patch, info in sorted(cat.items()):
        name = os.path.relpath(patch, ROOT)
        if only and not any(o in name for o in only):
            continue
        scratch = tempfile.mkdtemp(prefix="biosim-mutant-", dir="/tmp")
        try:
            shutil.copytree("/repo/biobalm", os.path.join(scratch, "biobalm"))
            p = subprocess.run(["patch", "-p1", "-s", "-d", scratch, "-i", patch], capture_output=True, text=True)
            if p.returncode != 0:
                print(f"MUTANT {name}: patch does not apply ({p.stdout[-200:]}{p.stderr[-200:]})")
                missed.append(name)
                continue
            caught = []
            for prop in info["properties"]:
                env = dict(os.environ)
                env["BIOBALM_SRC"] = scratch
                env["BIOSIM_REPLAY_DIR"] = os.path.join(scratch, "replays")
                env["BIOSIM_NO_MINIMIZE"] = "1"
                r = subprocess.run([os.path.join(ROOT, "check"), prop, "--tier", "quick", "--no-evidence"], capture_output=True, text=True, env=env, cwd=ROOT, timeout=3600)
                hit = r.returncode == 1 and "VIOLATION property=" in r.stdout
                caught.append((prop, hit))
                if hit and not a.all:
                    break
            ok = any(h for _, h in caught)
            print(f"MUTANT {name}: {'caught' if ok else 'MISSED'} {caught} — {info.get('what', '')}", flush=True)
            if not ok and info.get("expected_missed"):
                print(f"  (recorded as a residual gap of the quick tier in DESIGN.md §10; not counted)", flush=True)
            elif not ok:
                missed.append(name)
        finally:
            shutil.rmtree(scratch, ignore_errors=True)
    print(f"selftest-mutants: {len(missed)} missed of {len(cat)} in {time.time() - t0:.0f}s")
    return 0 if not missed else 2
