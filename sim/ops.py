"""World + operation alphabet: execution of one op on the real library under the
seams, canonical results, outcome classes.  (DESIGN.md §2.5)"""

from __future__ import annotations

import contextlib
import io
import pickle

from . import seams
from .netgen import DEFAULT_CONFIG, build_network, net_to_ref
from .seams import CLOCK, RANDOM, SOLVER, InjectedMemoryFailure, InjectedSolverFailure, WorkBudgetExceeded

from biobalm import SuccessionDiagram  # noqa: E402  (after seams put BIOBALM_SRC on sys.path)
from biobalm.control import succession_control, successions_to_target  # noqa: E402

LIMIT_MESSAGES = (
    "Exceeded the maximum amount of stable motifs per node",
    "Exceeded the maximum amount of attractor candidates",
)

EVICTABLE = ("percolated_network", "percolated_petri_net", "percolated_nfvs", "attractor_candidates")

# work budget constants (DESIGN.md §4 C13); constants of the check
C0 = 1_500_000
C1 = 500
C2 = 50


def work_budget(n, D, cfg):
    msb = cfg.get("minimum_simulation_budget", 1000)
    try:
        msb = max(0, int(msb))
    except (TypeError, ValueError):
        msb = 1000
    return C0 + C1 * n * (1 << n) * (D + 1) + C2 * n * n * (msb + 1024)


def canon_space(sp):
    return [[k, int(v)] for k, v in sorted(sp.items())]


def canon_spaces(lst):
    return [canon_space(s) for s in lst]


class World:
    """One diagram under simulation plus its reference model."""

    def __init__(self, net, config=None, walk_seed=None, reorder_seed=None, budget=True):
        seams.install()
        self.net = net
        self.ref = net_to_ref(net)
        self.config = dict(DEFAULT_CONFIG) if config is None else dict(config)
        self.config_given = config is not None
        self.walk_seed = walk_seed
        self.reorder_seed = reorder_seed
        self.reorder_rng = None
        if reorder_seed is not None:
            import random

            self.reorder_rng = random.Random(f"reorder/{reorder_seed}")
        self.budget = budget
        self.sd = None
        self.log = []  # executed steps: dict(op=..., out=...)
        self.total_work = 0
        self.fault_counts = {}
        self.construct()

    # -------------------------------------------------------------- plumbing
    def _enter(self):
        SOLVER.begin_op()
        SOLVER.reorder_rng = self.reorder_rng
        RANDOM.walk_seed = self.walk_seed

    def _guarded(self, fn, fail_at=None, fail_kinds=None, fail_exc=None):
        """Run fn() under clock + fault plan; return outcome dict."""
        self._enter()
        SOLVER.fail_at = fail_at
        SOLVER.fail_kinds = fail_kinds
        SOLVER.fail_exc = fail_exc or "runtime"
        n = self.ref.n
        D = len(self.sd) if self.sd is not None else 1
        limit = work_budget(n, D, self.config if self.sd is None else self.sd.config) if self.budget else None
        CLOCK.start(limit)
        out = {}
        buf = io.StringIO()
        try:
            with contextlib.redirect_stdout(buf):
                val = fn()
            out["cls"] = "ok"
            out["value"] = val
        except WorkBudgetExceeded as e:
            out["cls"] = "budget_exceeded"
            out["where"] = e.where
        except (InjectedSolverFailure, InjectedMemoryFailure) as e:
            out["cls"] = "injected_failure"
            out["msg"] = str(e)
        except KeyError as e:
            out["cls"] = "key_error"
            out["msg"] = str(e)[:200]
        except RuntimeError as e:
            msg = str(e)
            if any(msg.startswith(m) for m in LIMIT_MESSAGES):
                out["cls"] = "limit_error"
            else:
                out["cls"] = "crash"
                out["type"] = type(e).__name__
            out["msg"] = msg[:200]
        except Exception as e:  # noqa: BLE001  anything else is an anomaly
            out["cls"] = "crash"
            out["type"] = type(e).__name__
            out["msg"] = str(e)[:200]
        finally:
            out["work"] = CLOCK.stop()
            SOLVER.fail_at = None
            SOLVER.fail_kinds = None
            SOLVER.fail_exc = "runtime"
        out["points"] = SOLVER.points
        out["solver_calls"] = SOLVER.calls
        out["fired"] = list(SOLVER.fired)
        out["reordered"] = SOLVER.reordered
        self.total_work += out["work"]
        if out["fired"]:
            key = "solver_failure_memoryerror" if fail_exc == "memory" else "solver_failure"
            self.fault_counts[key] = self.fault_counts.get(key, 0) + len(out["fired"])
        if out["reordered"]:
            self.fault_counts["model_reorder"] = self.fault_counts.get("model_reorder", 0) + out["reordered"]
        return out

    def construct(self):
        def mk():
            bn = build_network(self.net)
            if not self.config_given:
                # the shipped default path (config=None)
                self.sd = SuccessionDiagram(bn)
            else:
                # the documented way to customise: start from default_config() and edit it
                cfg = SuccessionDiagram.default_config()
                cfg.update(self.config)
                self.sd = SuccessionDiagram(bn, cfg)
            return None

        out = self._guarded(mk)
        self.log.append({"op": {"op": "construct"}, "out": out})
        return out

    # ------------------------------------------------------------ addressing
    def node_of(self, space):
        """Node id whose space equals `space` (harness lookup, not find_node)."""
        if space is None:
            return 0
        sp = dict(space) if not isinstance(space, dict) else space
        for i in range(len(self.sd)):
            if self.sd.node_data(i)["space"] == sp:
                return i
        return None

    def space_of(self, nid):
        return dict(self.sd.node_data(nid)["space"])

    def node_ids(self):
        return list(range(len(self.sd)))

    # ------------------------------------------------------------- execution
    def apply(self, op):
        """Execute one op dict.  Returns the outcome dict (also appended to the log).
        An op whose node does not exist is skipped (outcome class 'skipped')."""
        kind = op["op"]
        sd = self.sd
        nid = None
        if "node" in op:
            nid = self.node_of(op["node"]) if op["node"] is not None else None
            if op["node"] is not None and nid is None:
                out = {"cls": "skipped", "work": 0, "points": 0, "fired": [], "reordered": 0, "solver_calls": 0}
                self.log.append({"op": op, "out": out})
                return out
        fn = self._executor(kind, op, nid)
        out = self._guarded(fn, fail_at=op.get("fail_at"), fail_kinds=set(op["fail_kinds"]) if op.get("fail_kinds") else None, fail_exc=op.get("fail_exc"))
        if kind == "pickle" and out["cls"] == "ok":
            self.fault_counts["crash_restart"] = self.fault_counts.get("crash_restart", 0) + 1
        if kind == "reclaim" and out["cls"] == "ok":
            self.fault_counts["cache_reclaim"] = self.fault_counts.get("cache_reclaim", 0) + 1
        if kind == "evict" and out["cls"] == "ok" and out.get("value"):
            self.fault_counts["cache_evict"] = self.fault_counts.get("cache_evict", 0) + 1
        if out["cls"] == "limit_error":
            self.fault_counts["limit_error"] = self.fault_counts.get("limit_error", 0) + 1
        if out["cls"] == "ok" and out.get("value") is False and kind in ("bfs", "dfs", "minimal", "attr_seeds", "to_target", "block", "scc"):
            self.fault_counts["early_stop"] = self.fault_counts.get("early_stop", 0) + 1
        self.log.append({"op": op, "out": out})
        return out

    def _executor(self, kind, op, nid):
        sd = self.sd
        g = op.get
        if kind == "expand_one":
            def ex1():
                sd.node_successors(nid if nid is not None else 0, compute=True)
            return ex1
        if kind == "successors":
            return lambda: sorted(sd.node_successors(nid if nid is not None else 0, compute=g("compute", False)))
        if kind == "bfs":
            return lambda: sd.expand_bfs(nid, g("level"), g("size"))
        if kind == "dfs":
            return lambda: sd.expand_dfs(nid, g("stack"), g("size"))
        if kind == "minimal":
            return lambda: sd.expand_minimal_spaces(nid, g("size"), g("skip", False))
        if kind == "attr_seeds":
            return lambda: sd.expand_attractor_seeds(g("size"))
        if kind == "to_target":
            return lambda: sd.expand_to_target(dict(op["target"]), g("size"))
        if kind == "block":
            return lambda: sd.expand_block(g("maa", True), g("size"), g("opt_src", True), g("exact", False))
        if kind == "scc":
            return lambda: sd.expand_scc(g("maa", True))
        if kind == "build":
            return lambda: sd.build()
        if kind == "skip_to_minimal":
            return lambda: sd.skip_to_minimal(nid if nid is not None else 0)
        if kind == "skip_remaining":
            return lambda: sd.skip_remaining()
        if kind == "candidates":
            return lambda: canon_spaces(
                sd.node_attractor_candidates(
                    nid if nid is not None else 0,
                    compute=g("compute", True),
                    greedy_asp_minification=g("greedy", True),
                    simulation_minification=g("sim", True),
                )
            )
        if kind == "seeds":
            return lambda: canon_spaces(
                sd.node_attractor_seeds(nid if nid is not None else 0, compute=g("compute", True), symbolic_fallback=g("fallback", False))
            )
        if kind == "sets":
            return lambda: [self.enum_set(s) for s in sd.node_attractor_sets(nid if nid is not None else 0, compute=g("compute", True))]
        if kind == "exp_candidates":
            return lambda: {str(k): canon_spaces(v) for k, v in sorted(sd.expanded_attractor_candidates().items())}
        if kind == "exp_seeds":
            return lambda: {str(k): canon_spaces(v) for k, v in sorted(sd.expanded_attractor_seeds().items())}
        if kind == "exp_sets":
            return lambda: {str(k): [self.enum_set(s) for s in v] for k, v in sorted(sd.expanded_attractor_sets().items())}
        if kind == "perc_network":
            return lambda: self.canon_bn(sd.node_percolated_network(nid if nid is not None else 0, compute=True))
        if kind == "perc_pn":
            par = op.get("parent")
            pid = self.node_of(par) if par is not None else None
            return lambda: self.canon_pn(sd.node_percolated_petri_net(nid if nid is not None else 0, compute=True, parent_id=pid))
        if kind == "perc_nfvs":
            return lambda: list(sd.node_percolated_nfvs(nid if nid is not None else 0, compute=True))
        if kind == "reclaim":
            return lambda: sd.reclaim_node_data()
        if kind == "evict":
            return lambda: self._evict(nid if nid is not None else 0, op["field"])
        if kind == "pickle":
            return self._pickle
        if kind == "control":
            return lambda: self.canon_interventions(
                succession_control(
                    sd,
                    dict(op["target"]),
                    strategy=g("strategy", "internal"),
                    max_drivers_per_succession_node=g("max_drivers"),
                    forbidden_drivers=set(g("forbidden") or []),
                    successful_only=g("successful_only", True),
                    skip_feedforward_successions=g("skip_ff", False),
                )
            )
        if kind == "successions":
            return lambda: [canon_spaces(s) for s in successions_to_target(sd, dict(op["target"]), expand_diagram=g("expand", True), skip_feedforward_successions=g("skip_ff", False))]
        if kind == "summary":
            return lambda: sd.summary()
        if kind == "depth":
            return lambda: sd.depth()
        if kind == "len":
            return lambda: len(sd)
        if kind == "find_node":
            return lambda: sd.find_node(dict(op["space"]))
        if kind == "minimal_trap_spaces":
            return lambda: list(sd.minimal_trap_spaces())
        if kind == "set_knob":
            def setk():
                sd.config[op["name"]] = op["value"]
            return setk
        if kind == "scc_subdiagrams":
            def sccs():
                res = []
                for sub in sd.source_scc_subdiagrams(nid if nid is not None else 0):
                    res.append([sorted(sub.network.variable_names()), len(sub)])
                return sorted(res)
            return sccs
        if kind == "edge_motifs":
            def motifs():
                n0 = nid if nid is not None else 0
                res = []
                for s_ in sorted(sd.dag.successors(n0)):
                    res.append([
                        canon_space(sd.node_data(s_)["space"]),
                        canon_space(sd.edge_stable_motif(n0, s_)),
                        canon_space(sd.edge_stable_motif(n0, s_, reduced=True)),
                        sorted(canon_space(m) for m in sd.edge_all_stable_motifs(n0, s_, reduced=True)),
                    ])
                return res
            return motifs
        if kind == "noop":
            return lambda: None
        raise ValueError(f"unknown op {kind}")

    def _evict(self, nid, field):
        d = self.sd.node_data(nid)
        if field not in EVICTABLE:
            raise ValueError(field)
        if field == "attractor_candidates" and d["attractor_seeds"] is None:
            return False  # mirrors reclaim_node_data: only when seeds are known
        if d[field] is None:
            return False
        d[field] = None
        return True

    def _pickle(self):
        blob = pickle.dumps(self.sd)
        self.sd = pickle.loads(blob)
        return len(blob) > 0

    # ------------------------------------------------------------ canonicals
    def enum_set(self, vs):
        """VertexSet -> sorted list of state ints in the reference model's numbering."""
        names = {}
        res = []
        net = self.sd.network
        for vm in vs.items():
            d = vm.to_dict()
            s = 0
            for k, v in d.items():
                nm = names.get(k)
                if nm is None:
                    nm = names[k] = net.get_variable_name(k)
                if v:
                    s |= 1 << self.ref.idx[nm]
            res.append(s)
        return sorted(res)

    def canon_bn(self, bn):
        """Percolated network -> [[name, truth table over its own variables (sorted by name)]].
        Compared semantically, never by expression text or object identity."""
        from biodivine_aeon import SymbolicContext

        names = sorted(bn.variable_names())
        if not names:
            return []
        ctx = SymbolicContext(bn)
        bvars = [ctx.find_network_bdd_variable(nm) for nm in names]
        out = []
        for nm in names:
            fn = bn.get_update_function(nm)
            if fn is None:
                out.append([nm, None])
                continue
            f = ctx.mk_update_function(fn)
            tt = []
            for idx in range(1 << len(names)):
                val = {bv: bool((idx >> j) & 1) for j, bv in enumerate(bvars)}
                tt.append(1 if f.r_restrict(val).is_true() else 0)
            out.append([nm, tt])
        return out

    @staticmethod
    def canon_pn(pn):
        """Only the places (= free variables) are compared: the transition structure is a
        DNF that legitimately depends on the BDD variable order."""
        return sorted(str(n) for n, d in pn.nodes(data=True) if d.get("kind") == "place")

    @staticmethod
    def canon_interventions(ivs):
        res = []
        for iv in ivs:
            res.append(
                {
                    "succession": canon_spaces(iv.succession),
                    "control": [canon_spaces(c) for c in iv.control],
                    "strategy": iv.strategy,
                    "successful": bool(iv.successful),
                }
            )
        return res

    # --------------------------------------------------------------- queries
    def node_mv(self, nid):
        return self.ref.sp2mv(self.sd.node_data(nid)["space"])

    def succ_mvs(self, nid):
        return [self.node_mv(s) for s in self.sd.dag.successors(nid)]

    def stubs(self):
        return [i for i in self.node_ids() if not self.sd.node_data(i)["expanded"]]
