"""Machine base class: one seed -> one scenario -> one deterministic run.

A *scenario* is a JSON-able dict that contains everything a run needs:

    {"property": "C04", "run_seed": int, "net": {...}, "config": {...} | None,
     "walk_seed": int | None, "reorder_seed": int | None,
     "ops_seed": int,            # drives the adaptive op chooser when "ops" is absent
     "params": {...},            # machine specific knobs drawn at generation time
     "ops": [ {...}, ... ]}      # explicit executed ops; present in replay files

Generation is adaptive (an op is chosen looking at the observable state); the
executed ops are recorded with concrete arguments (nodes addressed by space), so
that a replay file is a pure function of its own content.
"""

from __future__ import annotations

import hashlib
import json
import random

from . import dump as D
from .ops import World

STEP_CAP = 40


def sub_rng(seed, label):
    h = hashlib.sha256(f"{seed}/{label}".encode()).digest()
    return random.Random(int.from_bytes(h[:8], "big"))


def viol(prop, invariant, step, detail, site=None):
    return {"property": prop, "invariant": invariant, "step": step, "site": site, "detail": detail}


class Machine:
    ID = "C00"
    LEVEL = "exploration"
    FAMILY_WEIGHTS = None
    NMAX = {"quick": 6, "thorough": 7}
    FMTS = ("bnet", "aeon")
    SHUFFLE_ORDER = False  # with the "api" format: declare the variables in a non-alphabetical order
    USE_BUDGET = True

    # ------------------------------------------------------------ generation
    def gen_scenario(self, run_seed, tier):
        from .netgen import gen_network

        rng = sub_rng(run_seed, "net")
        net = gen_network(rng, self.FAMILY_WEIGHTS, nmax=self.NMAX.get(tier, 6), fmts=self.FMTS, shuffle_order=self.SHUFFLE_ORDER)
        sc = {
            "property": self.ID,
            "run_seed": run_seed,
            "tier": tier,
            "net": net,
            "config": None,
            "walk_seed": None,
            "reorder_seed": None,
            "ops_seed": run_seed,
            "params": {},
        }
        self.gen_params(sc, sub_rng(run_seed, "params"))
        return sc

    def gen_params(self, sc, rng):
        pass

    # -------------------------------------------------------------- run loop
    def make_world(self, sc):
        return World(sc["net"], sc.get("config"), sc.get("walk_seed"), sc.get("reorder_seed"), budget=self.USE_BUDGET)

    def run(self, sc):
        """Execute a scenario; returns a result dict."""
        res = new_result(sc)
        try:
            world = self.make_world(sc)
        except Exception as e:  # noqa: BLE001
            res["harness_error"] = f"world construction: {type(e).__name__}: {e}"
            return res
        cons = world.log[0]["out"]
        if cons["cls"] != "ok":
            # the network was rejected or construction overran: recorded, handed to C13 when a budget issue
            res["construct_cls"] = cons["cls"]
            if cons["cls"] == "budget_exceeded":
                res["budget_exceeded"].append({"op": "construct", "where": cons.get("where")})
            else:
                res["anomalies"].append({"step": 0, "op": "construct", "cls": cons["cls"], "msg": cons.get("msg")})
            finish(res, world, sc, [])
            return res
        st = self.setup(world, sc)
        replay = "ops" in sc and sc["ops"] is not None
        ops_done = []
        rng = sub_rng(sc["ops_seed"], "ops")
        step = 0
        vio = []
        while step < STEP_CAP:
            if replay:
                if step >= len(sc["ops"]):
                    break
                op = sc["ops"][step]
            else:
                op = self.choose(world, st, rng, step)
                if op is None:
                    break
            out = world.apply(op)
            ops_done.append(op)
            step += 1
            if out["cls"] == "skipped":
                continue
            if out["cls"] == "budget_exceeded":
                res["budget_exceeded"].append({"op": op["op"], "where": out.get("where"), "step": step})
                vio += self.on_budget(world, st, op, out, step)
                break
            if out["cls"] == "crash":
                res["anomalies"].append({"step": step, "op": op["op"], "cls": "crash", "type": out.get("type"), "msg": out.get("msg")})
            vio += self.check_step(world, st, op, out, step)
            if vio:
                break
        if not vio and not res["budget_exceeded"]:
            vio += self.check_end(world, st, step)
        res["violations"] = vio
        finish(res, world, sc, ops_done, st)
        self.classify(res, world, st)
        return res

    # hooks
    def setup(self, world, sc):
        return {}

    def choose(self, world, st, rng, step):
        return None

    def check_step(self, world, st, op, out, step):
        return []

    def check_end(self, world, st, step):
        return []

    def on_budget(self, world, st, op, out, step):
        return []

    def classify(self, res, world, st):
        """Set res['nontrivial'] and res['case_key'] (distinctness measure)."""
        res["nontrivial"] = len(res["trace"]["ops"]) > 0
        res["case_key"] = res["log_digest"]


def new_result(sc):
    return {
        "property": sc["property"],
        "run_seed": sc["run_seed"],
        "violations": [],
        "anomalies": [],
        "budget_exceeded": [],
        "harness_error": None,
        "trace": None,
        "nontrivial": False,
        "case_key": None,
        "stats": {},
    }


def finish(res, world, sc, ops_done, st=None):
    trace = {k: v for k, v in sc.items() if k != "ops"}
    trace["ops"] = ops_done
    res["trace"] = trace
    # event log digest: op, outcome class, value digest, work, fault points, faults
    ev = []
    kinds = []
    states = []
    for rec in world.log:
        o = rec["out"]
        ev.append(
            [
                rec["op"].get("op"),
                o.get("cls"),
                D.digest(o.get("value")),
                # work units are NOT part of the digest: the iteration order of the space
                # dicts returned by AEON's percolation (a Rust HashMap) differs from process
                # to process, so early-exit loops such as is_subspace vary by a few units
                o.get("points"),
                o.get("fired"),
            ]
        )
        kinds.append(f'{rec["op"].get("op")}:{o.get("cls")}')
    res["log_digest"] = D.digest(ev)
    res["stats"] = {
        "ops": len(world.log) - 1,
        "work": world.total_work,
        "faults": dict(world.fault_counts),
        "op_kinds": kinds,
        "n": world.ref.n,
        "family": sc["net"].get("family"),
        "nodes": len(world.sd) if world.sd is not None else 0,
        "work_by_op": [[rec["op"].get("op"), rec["out"].get("work", 0)] for rec in world.log],
    }
    try:
        res["state_digest"] = D.digest(D.dump(world, with_ids=True, attr=False)) if world.sd is not None else None
    except Exception:  # noqa: BLE001
        res["state_digest"] = None


# ---------------------------------------------------------------- op pickers
def pick_node(world, rng, pred=None):
    ids = [i for i in world.node_ids() if pred is None or pred(i)]
    if not ids:
        return None
    return rng.choice(ids)


def rand_limit(rng, world, p_none=0.4):
    if rng.random() < p_none:
        return None
    n = len(world.sd)
    return rng.choice([0, 1, 2, 3, 4, n, n + 1, n + 2, n + 5, 0, 1, 2, 3, 4, n, n + 1, n + 2, n + 5, -1])


def rand_small(rng, p_none=0.5):
    if rng.random() < p_none:
        return None
    return rng.choice([0, 1, 2, 3, 0, 1, 2, 3, -1])


def plain_op(world, rng, ref_targets=True):
    """One op from the C04 alphabet of plain expansion calls, with concrete arguments."""
    sd = world.sd
    r = rng.random()
    nid = pick_node(world, rng)
    node = world.space_of(nid) if rng.random() < 0.7 else None
    if r < 0.22:
        return {"op": "expand_one", "node": world.space_of(nid)}
    if r < 0.40:
        return {"op": "bfs", "node": node, "level": rand_small(rng), "size": rand_limit(rng, world)}
    if r < 0.56:
        return {"op": "dfs", "node": node, "stack": rand_small(rng), "size": rand_limit(rng, world)}
    if r < 0.68:
        return {"op": "minimal", "node": node, "size": rand_limit(rng, world), "skip": False}
    if r < 0.76:
        return {"op": "attr_seeds", "size": rand_limit(rng, world)}
    if r < 0.88:
        from .netgen import gen_target

        return {"op": "to_target", "target": gen_target(rng, world.ref), "size": rand_limit(rng, world)}
    return {"op": "block", "maa": rng.random() < 0.5, "size": rand_limit(rng, world), "opt_src": False, "exact": False}


def cache_op(world, rng):
    """Buggify: reclaim / evict / force the percolated-net branch."""
    r = rng.random()
    nid = pick_node(world, rng)
    if r < 0.3:
        return {"op": "reclaim"}
    if r < 0.65:
        op = {"op": "perc_pn", "node": world.space_of(nid)}
        preds = sorted(world.sd.dag.predecessors(nid))
        if preds and rng.random() < 0.5:
            op["parent"] = world.space_of(rng.choice(preds))
        return op
    from .ops import EVICTABLE

    return {"op": "evict", "node": world.space_of(nid), "field": rng.choice(EVICTABLE[:3])}


def save_json(path, obj):
    with open(path, "w") as fh:
        json.dump(obj, fh, indent=1, sort_keys=True, default=D._default)
        fh.write("\n")


def attr_op(world, rng, nid=None, pred=None):
    """An attractor query on a node with concrete arguments."""
    if nid is None:
        nid = pick_node(world, rng, pred)
        if nid is None:
            nid = 0
    r = rng.random()
    sp = world.space_of(nid)
    if rng.random() < 0.06:
        return {"op": rng.choice(["exp_seeds", "exp_sets", "exp_candidates"])}
    if r < 0.35:
        return {"op": "candidates", "node": sp, "compute": True, "greedy": rng.random() < 0.6, "sim": rng.random() < 0.6}
    if r < 0.75:
        return {"op": "seeds", "node": sp, "compute": True, "fallback": rng.random() < 0.2}
    return {"op": "sets", "node": sp, "compute": True}


def structural_op(world, rng):
    """Full structural alphabet: plain ops + block with source shortcuts + scc + build + skips."""
    r = rng.random()
    if r < 0.55:
        return plain_op(world, rng)
    if r < 0.67:
        return {"op": "block", "maa": rng.random() < 0.6, "size": rand_limit(rng, world, 0.6), "opt_src": rng.random() < 0.7, "exact": rng.random() < 0.2}
    if r < 0.75:
        return {"op": "scc", "maa": rng.random() < 0.6}
    if r < 0.79:
        return {"op": "build"}
    if r < 0.90:
        nid = pick_node(world, rng)
        return {"op": "skip_to_minimal", "node": world.space_of(nid)}
    if r < 0.95:
        return {"op": "skip_remaining"}
    return {"op": "minimal", "node": None, "size": rand_limit(rng, world, 0.6), "skip": True}


def control_op(world, rng):
    from .netgen import gen_target

    ref = world.ref
    forb = [ref.names[i] for i in range(ref.n) if rng.random() < 0.15]
    return {
        "op": "control",
        "target": gen_target(rng, ref),
        "strategy": rng.choice(["internal", "all"]),
        "max_drivers": rng.choice([None, None, 0, 1, 2]),
        "forbidden": forb,
        "successful_only": rng.random() < 0.5,
        "skip_ff": rng.random() < 0.3,
    }


def query_op(world, rng):
    r = rng.random()
    if r < 0.3:
        return {"op": "summary"}
    if r < 0.5:
        return {"op": "depth"}
    if r < 0.6:
        return {"op": "minimal_trap_spaces"}
    nid = pick_node(world, rng)
    if r < 0.72:
        return {"op": "find_node", "space": world.space_of(nid)}
    if r < 0.8:
        return {"op": rng.choice(["scc_subdiagrams", "edge_motifs"]), "node": world.space_of(nid)}
    # percolated data of a node (answers must not depend on what is cached)
    kind = rng.choice(["perc_network", "perc_nfvs", "perc_pn", "perc_pn"])
    op = {"op": kind, "node": world.space_of(nid)}
    if kind == "perc_pn":
        # public keyword: start the percolation from the (cached) net of a given parent node;
        # any predecessor is a parent, not only the one that created the node
        preds = sorted(world.sd.dag.predecessors(nid))
        if preds and rng.random() < 0.6:
            op["parent"] = world.space_of(rng.choice(preds))
    return op


def full_op(world, rng, w=None):
    """Full alphabet; w = weights (structural, attr, cache, pickle, control, query)."""
    w = w or (0.42, 0.30, 0.10, 0.06, 0.06, 0.06)
    r0 = rng.random()
    if r0 < 0.04 and len(world.log) > 1 and not world.log[-1]["op"].get("fault"):
        # the same call again (idempotence / accumulating state)
        prev = dict(world.log[-1]["op"])
        prev.pop("fail_at", None)
        prev.pop("fail_exc", None)
        if prev.get("op") not in ("construct",):
            return prev
    if r0 > 0.97:
        # the configuration is a live, documented dict: changing it between calls is legal
        from .netgen import DEFAULT_CONFIG

        name = rng.choice(["attractor_candidates_limit", "retained_set_optimization_threshold", "minimum_simulation_budget", "nfvs_size_threshold", "max_motifs_per_node"])
        val = rng.choice([0, 1, 2, 3, 5, DEFAULT_CONFIG[name], DEFAULT_CONFIG[name]])
        return {"op": "set_knob", "name": name, "value": val}
    r = rng.random() * sum(w)
    if r < w[0]:
        return structural_op(world, rng)
    r -= w[0]
    if r < w[1]:
        return attr_op(world, rng)
    r -= w[1]
    if r < w[2]:
        return cache_op(world, rng)
    r -= w[2]
    if r < w[3]:
        return {"op": "pickle"}
    r -= w[3]
    if r < w[4]:
        return control_op(world, rng)
    return query_op(world, rng)
