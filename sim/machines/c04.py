"""C04 — lazily built diagrams are always a faithful part of the full diagram.

Self-relative oracle: F = a fresh diagram of the same network fully expanded by
expand_bfs() in the same process (DESIGN.md §4 C04).
"""

from __future__ import annotations

from .. import dump as D
from ..machine import Machine, cache_op, plain_op, viol
from ..netgen import DEFAULT_CONFIG
from ..ops import World

MOTIF_DEFAULT = DEFAULT_CONFIG["max_motifs_per_node"]


class C04(Machine):
    ID = "C04"
    FAMILY_WEIGHTS = {"sparse": 3, "dense": 1, "canal": 4, "modular": 4, "maa": 1, "cascade": 3, "degenerate": 1, "inputs_mix": 2}

    def gen_params(self, sc, rng):
        sc["params"] = {"len": rng.randint(1, 9), "p_cache": rng.choice([0.0, 0.15, 0.3]), "final": rng.choice(["bfs", "dfs"])}
        if rng.random() < 0.3:
            sc["reorder_seed"] = rng.randrange(1 << 30)
        # motif-limit mode (round 9): `max_motifs_per_node` is one of the "any limits" of a
        # plain expansion call; while it is tight an expansion may legitimately raise the
        # limit error, but whatever *is* marked expanded must still have its full successors
        sc["params"]["p_motif_limit"] = rng.choice([0.0, 0.0, 0.2, 0.35])

    def setup(self, world, sc):
        twin = World(sc["net"], None, None, None, budget=self.USE_BUDGET)
        out = twin.apply({"op": "bfs", "node": None, "level": None, "size": None})
        st = {"params": sc["params"], "twin_ok": out["cls"] == "ok" and out.get("value") is True, "final_done": False}
        if st["twin_ok"]:
            st["F"] = D.structure(twin)
            st["F_dump"] = D.dump(twin, with_ids=False, attr=False)
        st["twin_out"] = out
        return st

    def choose(self, world, st, rng, step):
        p = st["params"]
        if not st["twin_ok"]:
            return None
        if step >= p["len"]:
            if st["final_done"]:
                return None
            if world.sd.config["max_motifs_per_node"] != MOTIF_DEFAULT:
                return {"op": "set_knob", "name": "max_motifs_per_node", "value": MOTIF_DEFAULT}
            st["final_done"] = True
            if p["final"] == "bfs":
                return {"op": "bfs", "node": None, "level": None, "size": None, "final": True}
            return {"op": "dfs", "node": None, "stack": None, "size": None, "final": True}
        if rng.random() < p.get("p_motif_limit", 0.0):
            val = rng.choice([1, 2, 2, 3, 4, 5, MOTIF_DEFAULT])
            return {"op": "set_knob", "name": "max_motifs_per_node", "value": val}
        if rng.random() < p["p_cache"]:
            return cache_op(world, rng)
        return plain_op(world, rng)

    def check_step(self, world, st, op, out, step):
        if not st["twin_ok"]:
            return []
        v = []
        if out["cls"] not in ("ok",):
            # plain expansion with default config must not raise (no faults are injected here)
            if out["cls"] == "limit_error" and world.sd.config["max_motifs_per_node"] != MOTIF_DEFAULT:
                pass  # legitimate: the configured motif limit is tight; fall through to the structure check
            elif out["cls"] in ("crash", "limit_error", "key_error"):
                return [viol(self.ID, "op_raised", step, {"op": op, "cls": out["cls"], "msg": out.get("msg")}, site=op["op"])]
            else:
                return []
        F = st["F"]
        cur = D.structure(world)
        for sp, recs in cur.items():
            if len(recs) > 1:
                return [viol(self.ID, "duplicate_space", step, {"space": sp}, site=op["op"])]
            if sp not in F:
                return [viol(self.ID, "node_not_in_full", step, {"space": sp}, site=op["op"])]
            exp, skipped, succ = recs[0]
            if exp:
                if succ != F[sp][0][2]:
                    return [
                        viol(
                            self.ID,
                            "expanded_successors_differ",
                            step,
                            {"space": sp, "have": succ, "full": F[sp][0][2]},
                            site=op["op"],
                        )
                    ]
            elif succ:
                return [viol(self.ID, "stub_has_successors", step, {"space": sp, "have": succ}, site=op["op"])]
        if op.get("final"):
            if out.get("value") is not True:
                return [viol(self.ID, "final_expansion_incomplete", step, {"value": out.get("value")}, site=op["op"])]
            if D.dump(world, with_ids=False, attr=False) != st["F_dump"]:
                return [viol(self.ID, "final_differs_from_fresh", step, {"len": len(world.sd), "fresh_len": st["F_dump"]["len"]}, site=op["op"])]
        return v

    def classify(self, res, world, st):
        kinds = [k.split(":")[0] for k in res["stats"]["op_kinds"][1:]]
        res["nontrivial"] = st.get("twin_ok", False) and st.get("F_dump", {}).get("len", 0) >= 3 and len([k for k in kinds if k not in ("reclaim", "evict", "perc_pn")]) >= 2
        res["case_key"] = res["log_digest"]


MACHINE = C04()
