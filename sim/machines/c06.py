"""C06 — every intervention reported successful really forces the network into the
target (DESIGN.md §4 C06)."""

from __future__ import annotations

from ..machine import Machine, cache_op, control_op, structural_op, viol


class C06(Machine):
    ID = "C06"
    FAMILY_WEIGHTS = {"sparse": 3, "dense": 1, "canal": 4, "modular": 4, "maa": 1, "cascade": 4, "degenerate": 1, "inputs_mix": 2}
    NMAX = {"quick": 6, "thorough": 7}

    def gen_params(self, sc, rng):
        sc["params"] = {"prefix": rng.choice([0, 0, 1, 2, 3, 4]), "controls": rng.choice([1, 2, 3, 3, 4])}

    def setup(self, world, sc):
        return {"params": sc["params"], "n_prefix": 0, "n_c": 0, "interventions": 0, "successful": 0, "overrides": 0, "multi_step": 0, "inconsistent_overrides": 0}

    def choose(self, world, st, rng, step):
        p = st["params"]
        if st["n_prefix"] < p["prefix"]:
            st["n_prefix"] += 1
            if rng.random() < 0.1:
                return cache_op(world, rng)
            return structural_op(world, rng)
        if st["n_c"] >= p["controls"]:
            return None
        st["n_c"] += 1
        return control_op(world, rng)

    def check_step(self, world, st, op, out, step):
        if op["op"] != "control":
            return []
        site = op.get("strategy")
        if out["cls"] in ("crash", "key_error", "limit_error"):
            return [viol(self.ID, "control_raised", step, {"op": op, "cls": out["cls"], "type": out.get("type"), "msg": out.get("msg")}, site)]
        if out["cls"] != "ok":
            return []
        ref = world.ref
        try:
            tmv = ref.sp2mv(op["target"])
        except KeyError:
            return []
        forb = set(op.get("forbidden") or [])
        md = op.get("max_drivers")
        mins = ref.minimal_traps()
        trapset = set(ref.all_traps())
        for iv in out["value"]:
            st["interventions"] += 1
            succession = [{k: v for k, v in m} for m in iv["succession"]]
            control = [[{k: v for k, v in o} for o in c] for c in iv["control"]]
            if iv["successful"] != all(len(c) > 0 for c in control):
                return [viol(self.ID, "successful_flag_wrong", step, {"intervention": iv}, site)]
            if op.get("successful_only", True) and not iv["successful"]:
                return [viol(self.ID, "unsuccessful_returned_with_successful_only", step, {"intervention": iv}, site)]
            if not iv["successful"]:
                continue
            st["successful"] += 1
            if len(succession) >= 2:
                st["multi_step"] += 1
            T = ref.percolate((0, 0))
            for i, (motif, ctrl) in enumerate(zip(succession, control)):
                try:
                    mm = ref.sp2mv(motif)
                except KeyError:
                    return [viol(self.ID, "motif_unknown_variable", step, {"motif": motif}, site)]
                S = ref.union(T, mm)
                if S is None:
                    return [viol(self.ID, "motif_inconsistent_with_previous_trap_space", step, {"motif": motif, "previous": ref.mv2sp(T), "intervention": iv}, site)]
                Tn = ref.percolate(S)
                if Tn not in trapset:
                    return [viol(self.ID, "succession_step_not_a_trap_space", step, {"motif": motif, "space": ref.mv2sp(Tn), "intervention": iv}, site)]
                if not ref.subspace(Tn, T):
                    return [viol(self.ID, "succession_not_nested", step, {"motif": motif, "intervention": iv}, site)]
                for o in ctrl:
                    st["overrides"] += 1
                    try:
                        omv = ref.sp2mv(o)
                    except KeyError:
                        return [viol(self.ID, "override_unknown_variable", step, {"override": o}, site)]
                    U = ref.union(T, omv)
                    Ro = ref.override(omv)
                    if U is None:
                        # the override conflicts with a value of the previous trap space (e.g. it
                        # overrides a constant): the override wins, so the LDOI is evaluated in
                        # the overridden network; the dynamic clause below is checked as usual
                        st["inconsistent_overrides"] += 1
                        P = Ro.percolate(omv)
                    else:
                        P = ref.percolate(U)
                    if not ref.subspace(P, mm):
                        return [viol(self.ID, "override_ldoi_lacks_motif", step, {"override": o, "motif": motif, "previous": ref.mv2sp(T), "intervention": iv}, site)]
                    seen = Ro.forward(set(ref.states(T)))
                    for k, A in enumerate(Ro.attractors()):
                        if next(iter(A)) in seen:
                            if not all(ref.in_space(s, mm) for s in A):
                                return [viol(self.ID, "overridden_attractor_escapes_motif", step, {"override": o, "motif": motif, "previous": ref.mv2sp(T), "attractor": sorted(A)[:8], "intervention": iv}, site)]
                T = Tn
            if ref.union(T, tmv) is None:
                return [viol(self.ID, "final_trap_space_inconsistent_with_target", step, {"final": ref.mv2sp(T), "target": op["target"], "intervention": iv}, site)]
            for m in mins:
                if ref.subspace(m, T) and not ref.subspace(m, tmv):
                    return [viol(self.ID, "minimal_trap_space_outside_target", step, {"final": ref.mv2sp(T), "target": op["target"], "minimal": ref.mv2sp(m), "intervention": iv}, site)]
        return []

    def classify(self, res, world, st):
        res["nontrivial"] = st.get("overrides", 0) > 0
        res["case_key"] = res["log_digest"]
        for k in ("interventions", "successful", "overrides", "multi_step", "inconsistent_overrides"):
            res["stats"][k] = st.get(k, 0)

    def evidence_extra(self, results):
        out = {}
        for k in ("interventions", "successful", "overrides", "multi_step", "inconsistent_overrides"):
            out["control_" + k] = sum((r.get("stats") or {}).get(k, 0) for r in results)
        return out


MACHINE = C06()
