"""C16 — serialization and memory reclamation are transparent (DESIGN.md §4 C16).

Twin histories: run B executes the history H untouched, run A executes H with
pickle round trips / reclaim / single-field evictions inserted at seeded points
(ops marked "fault": true).  After every op of H: same outcome class, same return
value, same dump with ids.  Only what public methods return is compared."""

from __future__ import annotations

from .. import dump as D
from ..machine import STEP_CAP, Machine, finish, full_op, new_result, sub_rng, viol
from ..ops import EVICTABLE, World


def _norm_attr(attr):
    return {k: [list(map(list, x)) if k != "sets" else list(x) for x in v] for k, v in attr.items()}


class C16(Machine):
    ID = "C16"
    FAMILY_WEIGHTS = {"sparse": 3, "dense": 1, "canal": 2, "modular": 3, "maa": 2, "cascade": 2, "maa_cascade": 4, "degenerate": 1, "maa_deadpad": 1, "inputs_mix": 2}
    NMAX = {"quick": 6, "thorough": 7}
    FMTS = ("bnet", "aeon", "api")

    def gen_scenario(self, run_seed, tier):
        from ..netgen import gen_network

        rng = sub_rng(run_seed, "net")
        net = gen_network(rng, self.FAMILY_WEIGHTS, nmax=self.NMAX.get(tier, 6), fmts=self.FMTS, shuffle_order=True)
        sc = {"property": self.ID, "run_seed": run_seed, "tier": tier, "net": net, "config": None, "walk_seed": None, "reorder_seed": None, "ops_seed": run_seed, "params": {}}
        prng = sub_rng(run_seed, "params")
        sc["params"] = {"len": prng.randint(2, 10), "p_fault": prng.choice([0.15, 0.25, 0.4]), "kinds": prng.choice([["pickle"], ["reclaim"], ["evict"], ["pickle", "reclaim", "evict"], ["pickle", "reclaim", "evict"]])}
        if prng.random() < 0.15:
            # skip-raw history: un-minified candidates (spurious ones survive) and seeds on the
            # expanded nodes, then skipping, then seeds of every node; the fault lands between
            # the two phases.  Skip nodes prune by what other nodes' caches say, so a cache that
            # is dropped or kept must not change the outcome.
            sc["params"]["mode"] = "skip_raw"
            sc["params"]["kinds"] = prng.choice([["reclaim"], ["pickle"], ["reclaim", "pickle"], ["evict"]])
            sc["net"] = gen_network(sub_rng(run_seed, "net-skip-raw"), {"maa_cascade": 3, "maa": 1, "modular": 1}, nmax=self.NMAX.get(tier, 6), fmts=self.FMTS, shuffle_order=True)
            return sc
        if prng.random() < 0.12:
            # stub-data history: attractor data computed on unexpanded nodes, the fault, then a
            # call that gives those nodes successors (every strategy / skip / SCC attachment) and
            # the attractor queries again: whatever the strategy does with data cached on a stub
            # must not depend on how much of that data the fault has dropped
            sc["params"]["mode"] = "stub_data"
            sc["params"]["kinds"] = prng.choice([["reclaim"], ["reclaim"], ["pickle"], ["evict"], ["reclaim", "pickle"]])
            sc["net"] = gen_network(sub_rng(run_seed, "net-stub-data"), {"maa": 4, "maa_cascade": 3, "modular": 2, "rings": 1, "inputs_mix": 1}, nmax=self.NMAX.get(tier, 6), fmts=self.FMTS, shuffle_order=True)
            return sc
        if prng.random() < 0.15:
            # cached-net history: percolated Petri nets are caches that later calls read
            # (expansion, skipping, candidate search).  Fill them through the public method,
            # also with its parent_id keyword and a parent that did not create the node, drop
            # them (the fault), then run the consumers.
            sc["params"]["mode"] = "cached_net"
            sc["params"]["kinds"] = prng.choice([["reclaim"], ["reclaim"], ["pickle"], ["evict"]])
            sc["net"] = gen_network(sub_rng(run_seed, "net-cached-net"), {"modular": 3, "cascade": 2, "maa_cascade": 1, "canal": 2, "sparse": 2, "degenerate": 1, "inputs_mix": 4}, nmax=self.NMAX.get(tier, 6), fmts=self.FMTS, shuffle_order=True)
            return sc
        if prng.random() < 0.45:
            # a non-default configuration must survive the round trip as well: later answers
            # (limit errors, candidate lists) depend on it
            from ..netgen import gen_knobs

            sc["config"] = gen_knobs(prng, p=0.4)
            if prng.random() < 0.5:
                sc["config"]["max_motifs_per_node"] = prng.choice([1, 2, 3, 4])
        return sc

    def fault_op(self, world, rng, kinds):
        k = rng.choice(kinds)
        if k == "pickle":
            return {"op": "pickle", "fault": True}
        if k == "reclaim":
            return {"op": "reclaim", "fault": True}
        nid = rng.choice(world.node_ids())
        return {"op": "evict", "node": world.space_of(nid), "field": rng.choice(EVICTABLE), "fault": True}

    def run(self, sc):
        res = new_result(sc)
        A = self.make_world(sc)
        B = self.make_world(sc)
        if A.log[0]["out"]["cls"] != "ok" or B.log[0]["out"]["cls"] != "ok":
            res["construct_cls"] = A.log[0]["out"]["cls"]
            if A.log[0]["out"]["cls"] == "budget_exceeded":
                res["budget_exceeded"].append({"op": "construct"})
            finish(res, A, sc, [])
            return res
        p = sc["params"]
        replay = sc.get("ops") is not None
        rng = sub_rng(sc["ops_seed"], "ops")
        frng = sub_rng(sc["ops_seed"], "faults")
        ops_done = []
        vio = []
        last_fault = None
        n_faults = 0
        n_compared = 0
        step = 0
        i = 0
        hist_len = 0
        script = None
        if not replay and p.get("mode") == "skip_raw":
            script = self.skip_raw_script(B, sc, rng, frng)
        if not replay and p.get("mode") == "stub_data":
            script = self.stub_data_script(B, sc, rng, frng)
        if not replay and p.get("mode") == "cached_net":
            script = self.cached_net_script(B, sc, rng, frng)
        while step < STEP_CAP and not vio:
            if script is not None:
                if i >= len(script):
                    break
                op = script[i]
                i += 1
            elif replay:
                if i >= len(sc["ops"]):
                    break
                op = sc["ops"][i]
                i += 1
            else:
                if hist_len >= p["len"]:
                    break
                if frng.random() < p["p_fault"] and hist_len > 0:
                    op = self.fault_op(A, frng, p["kinds"])
                else:
                    # chosen on the untouched twin B: the history H does not depend on the faults
                    op = full_op(B, rng, w=(0.45, 0.30, 0.0, 0.0, 0.10, 0.15))
                    while op.get("op") == "set_knob":
                        # C16 quantifies over histories of API *calls* under one configuration
                        # (non-default ones come from the scenario).  Rewriting sd.config between
                        # caching and reclaiming legitimately makes recomputed heuristic data (e.g.
                        # the NFVS under another nfvs_size_threshold) differ from what the
                        # untouched twin still has cached — not a transparency defect.
                        op = full_op(B, rng, w=(0.45, 0.30, 0.0, 0.0, 0.10, 0.15))
            ops_done.append(op)
            step += 1
            if op.get("fault"):
                out = A.apply(op)
                if out["cls"] == "skipped":
                    continue
                n_faults += 1
                last_fault = op["op"] if op["op"] != "evict" else f'evict:{op["field"]}'
                if out["cls"] in ("crash", "key_error", "limit_error"):
                    vio.append(viol(self.ID, "fault_op_raised", step, {"op": op, "cls": out["cls"], "type": out.get("type"), "msg": out.get("msg")}, last_fault))
                    break
                if out["cls"] == "budget_exceeded":
                    res["budget_exceeded"].append({"op": op["op"], "step": step})
                    break
                # the fault itself must not change anything observable
                vio += self.compare(A, B, op, None, None, step, last_fault)
                continue
            hist_len += 1
            ob = B.apply(op)
            oa = A.apply(op)
            if "budget_exceeded" in (oa["cls"], ob["cls"]):
                res["budget_exceeded"].append({"op": op["op"], "step": step})
                break
            if n_faults > 0:
                n_compared += 1
                vio += self.compare(A, B, op, oa, ob, step, last_fault)
            elif oa["cls"] != ob["cls"] or D.digest(oa.get("value")) != D.digest(ob.get("value")):
                res["harness_error"] = f"twins diverged before any fault was injected at step {step}: {op}"
                break
        res["violations"] = vio
        finish(res, A, sc, ops_done)
        res["stats"]["faults_inserted"] = n_faults
        res["stats"]["ops_compared_after_fault"] = n_compared
        res["nontrivial"] = n_faults > 0 and n_compared > 0
        res["case_key"] = res["log_digest"]
        return res

    def skip_raw_script(self, B, sc, rng, frng):
        """Build the whole history on a scratch world first (explicit ops)."""
        w = self.make_world(sc)
        if w.log[0]["out"]["cls"] != "ok":
            return []
        ops = [{"op": "expand_one", "node": w.space_of(0)}]
        w.apply(ops[0])
        for _ in range(rng.randint(1, 4)):
            stubs = w.stubs()
            if not stubs:
                break
            op = {"op": "expand_one", "node": w.space_of(rng.choice(stubs))}
            w.apply(op)
            ops.append(op)
        exp = [i for i in w.node_ids() if w.sd.node_data(i)["expanded"]]
        rng.shuffle(exp)
        for i in exp[:4]:
            for op in ({"op": "candidates", "node": w.space_of(i), "compute": True, "greedy": False, "sim": False}, {"op": "seeds", "node": w.space_of(i), "compute": True, "fallback": False}):
                w.apply(op)
                ops.append(op)
        op = {"op": "skip_remaining"}
        w.apply(op)
        ops.append(op)
        ops.append(self.fault_op(w, frng, sc["params"]["kinds"]))
        ids = list(w.node_ids())
        rng.shuffle(ids)
        for i in ids[:12]:
            ops.append({"op": "seeds", "node": w.space_of(i), "compute": True, "fallback": False})
        return ops[: STEP_CAP - 1]

    def stub_data_script(self, B, sc, rng, frng):
        w = self.make_world(sc)
        if w.log[0]["out"]["cls"] != "ok":
            return []
        ops = []
        if rng.random() < 0.4:
            ops.append({"op": "expand_one", "node": w.space_of(0)})
            w.apply(ops[-1])
        stubs = w.stubs()
        rng.shuffle(stubs)
        for n in stubs[:3]:
            sp = w.space_of(n)
            kind = rng.choice(["seeds", "seeds", "sets", "candidates"])
            op = {"op": "candidates", "node": sp, "compute": True, "greedy": True, "sim": True} if kind == "candidates" else ({"op": "sets", "node": sp, "compute": True} if kind == "sets" else {"op": "seeds", "node": sp, "compute": True, "fallback": False})
            w.apply(op)
            ops.append(op)
        ops.append(self.fault_op(w, frng, sc["params"]["kinds"]))
        stubs = w.stubs()
        r = rng.random()
        if r < 0.35:
            op = {"op": "scc", "maa": rng.random() < 0.7}
        elif r < 0.5:
            op = {"op": "block", "maa": rng.random() < 0.7, "size": None, "opt_src": True, "exact": False}
        elif r < 0.6:
            op = {"op": "build"}
        elif r < 0.7 and stubs:
            op = {"op": "skip_to_minimal", "node": w.space_of(rng.choice(stubs))}
        elif r < 0.8:
            op = {"op": "skip_remaining"}
        elif r < 0.9:
            op = {"op": "minimal", "node": None, "size": None, "skip": rng.random() < 0.5}
        else:
            op = {"op": "bfs", "node": None, "level": None, "size": None}
        w.apply(op)
        ops.append(op)
        ops.append({"op": "summary"})
        ops.append({"op": "exp_seeds"})
        ops.append({"op": "exp_sets"})
        return ops[: STEP_CAP - 1]

    def cached_net_script(self, B, sc, rng, frng):
        w = self.make_world(sc)
        if w.log[0]["out"]["cls"] != "ok":
            return []
        if rng.random() < 0.4:
            # root first: the root's own net is cached by a query on the unexpanded root, the
            # fault drops it, then the root is expanded (cached restricted net vs global net)
            ops = [rng.choice([{"op": "perc_pn", "node": w.space_of(0)}, {"op": "candidates", "node": w.space_of(0), "compute": True, "greedy": True, "sim": True}, {"op": "seeds", "node": w.space_of(0), "compute": True, "fallback": False}])]
            ops.append(self.fault_op(w, frng, sc["params"]["kinds"]))
            ops.append(rng.choice([{"op": "expand_one", "node": w.space_of(0)}, {"op": "bfs", "node": None, "level": None, "size": None}, {"op": "dfs", "node": None, "stack": None, "size": None}, {"op": "minimal", "node": None, "size": None, "skip": False}]))
            ops.append({"op": "bfs", "node": None, "level": None, "size": None})
            ops.append({"op": "exp_seeds"})
            return ops
        ops = [{"op": "bfs", "node": None, "level": rng.choice([1, 1, 2]), "size": None}]
        w.apply(ops[0])
        sd = w.sd
        stubs = w.stubs()
        rng.shuffle(stubs)
        # prefer stubs with several parents
        stubs.sort(key=lambda n: -len(list(sd.dag.predecessors(n))))
        chosen = stubs[:3]
        for c in chosen:
            preds = sorted(sd.dag.predecessors(c))
            if not preds:
                continue
            par = rng.choice(preds)
            for op in ({"op": "perc_pn", "node": w.space_of(par)}, {"op": "perc_pn", "node": w.space_of(c), "parent": w.space_of(par)}):
                w.apply(op)
                ops.append(op)
        ops.append(self.fault_op(w, frng, sc["params"]["kinds"]))
        for c in chosen:
            sp = w.space_of(c)
            op = rng.choice([{"op": "skip_to_minimal", "node": sp}, {"op": "expand_one", "node": sp}, {"op": "candidates", "node": sp, "compute": True, "greedy": True, "sim": True}, {"op": "minimal", "node": sp, "size": None, "skip": False}])
            w.apply(op)
            ops.append(op)
        ops.append({"op": "bfs", "node": None, "level": None, "size": None})
        ops.append({"op": "exp_seeds"})
        return ops[: STEP_CAP - 1]

    def compare(self, A, B, op, oa, ob, step, site):
        if oa is not None:
            if oa["cls"] != ob["cls"]:
                return [viol(self.ID, "outcome_class_differs", step, {"op": op, "faulted": {"cls": oa["cls"], "msg": oa.get("msg")}, "untouched": {"cls": ob["cls"], "msg": ob.get("msg")}}, site)]
            if oa["cls"] == "ok" and oa.get("value") != ob.get("value"):
                ok = False
                if op["op"] == "candidates":
                    ok = self.cand_substitution_ok(A, B, A.node_of(op.get("node")), oa["value"], ob["value"])
                elif op["op"] == "exp_candidates":
                    ok = all(
                        oa["value"].get(k, []) == ob["value"].get(k, []) or self.cand_substitution_ok(A, B, int(k), oa["value"].get(k, []), ob["value"].get(k, []))
                        for k in sorted(set(oa["value"]) | set(ob["value"]))
                    )
                if not ok:
                    return [viol(self.ID, "return_value_differs", step, {"op": op, "faulted": oa.get("value"), "untouched": ob.get("value")}, site)]
        da = D.dump(A, with_ids=True, attr=True)
        db = D.dump(B, with_ids=True, attr=True)
        if da == db:
            return []
        if da["len"] != db["len"]:
            return [viol(self.ID, "dump_differs", step, {"what": "len", "faulted": da["len"], "untouched": db["len"], "op": op}, site)]
        for na, nb in zip(da["nodes"], db["nodes"]):
            for key in ("space", "expanded", "skipped", "depth", "succ"):
                if na[key] != nb[key]:
                    return [viol(self.ID, "dump_differs", step, {"what": key, "id": na["id"], "faulted": na[key], "untouched": nb[key], "op": op}, site)]
            aa, ab = _norm_attr(na["attr"]), _norm_attr(nb["attr"])
            for kind in ("seeds", "sets"):
                if aa.get(kind) != ab.get(kind):
                    # eviction / reclamation may legitimately make data unknown again only for candidates
                    return [viol(self.ID, "dump_differs", step, {"what": kind, "id": na["id"], "space": na["space"], "faulted": aa.get(kind), "untouched": ab.get(kind), "op": op}, site)]
            if aa.get("candidates") != ab.get("candidates"):
                if not self.cand_substitution_ok(A, B, na["id"], aa.get("candidates"), ab.get("candidates")):
                    return [viol(self.ID, "dump_differs", step, {"what": "candidates", "id": na["id"], "space": na["space"], "faulted": aa.get("candidates"), "untouched": ab.get("candidates"), "op": op}, site)]
        for key in ("depth", "minimal"):
            if da[key] != db[key]:
                return [viol(self.ID, "dump_differs", step, {"what": key, "faulted": da[key], "untouched": db[key], "op": op}, site)]
        return []

    def cand_substitution_ok(self, A, B, nid, ca, cb):
        """Documented: once seeds are known, reclaimed candidates are answered with the
        seeds.  Accept a difference only when the faulted twin answers with its seeds and
        both twins agree on the seeds."""
        if nid is None or ca is None or cb is None:
            # one twin does not know candidates at all: acceptable only if it is the faulted
            # twin that lost them and seeds are unknown there as well (evicted back to 'not computed')
            return False
        try:
            sa = [list(map(list, D._cs(s))) for s in A.sd.node_attractor_seeds(nid, compute=False)]
            sb = [list(map(list, D._cs(s))) for s in B.sd.node_attractor_seeds(nid, compute=False)]
        except KeyError:
            return False
        norm = lambda c: [list(map(list, x)) for x in c]  # noqa: E731
        return sa == sb and norm(ca) == sa


MACHINE = C16()
