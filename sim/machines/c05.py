"""C05 — diagrams completed with skip nodes never lose an attractor (DESIGN.md §4 C05)."""

from __future__ import annotations

from ..machine import Machine, plain_op, viol
from ..oracles import check_seeds


class C05(Machine):
    ID = "C05"
    FAMILY_WEIGHTS = {"sparse": 3, "dense": 1, "canal": 3, "modular": 4, "maa": 4, "cascade": 2, "degenerate": 1, "maa_deadpad": 1, "inputs_mix": 2, "osc_latches": 2}
    NMAX = {"quick": 6, "thorough": 8}

    def gen_params(self, sc, rng):
        sc["params"] = {
            "strategy": rng.choice(["none", "bfs", "dfs", "minimal", "attr_seeds", "block"]),
            "size": rng.choice([1, 2, 3, 4, 5]),
            "n_each": rng.choice([0, 1, 2, 3]),
            "extra_plain": rng.choice([0, 0, 1, 2]),
            "completion": rng.choice(["skip_remaining", "skip_each", "minimal_skip", "leave_some"]),
        }
        if rng.random() < 0.18:
            # sub-expansion history: root expanded, then a strategy started from a *non-root*
            # node, then every remaining stub skipped one by one; seeds asked in id order
            from ..machine import sub_rng
            from ..netgen import gen_network

            sc["params"].update({"sub": rng.choice(["minimal", "minimal", "bfs", "dfs"]), "strategy": "bfs", "size": rng.choice([1, 2]), "n_each": 0, "extra_plain": 0, "completion": "skip_each", "id_order": True})
            sc["net"] = gen_network(sub_rng(sc["run_seed"], "net-sub"), {"rings": 3, "modular": 3, "cascade": 1, "sparse": 1}, nmax=self.NMAX.get(sc["tier"], 6), fmts=self.FMTS)
        if rng.random() < 0.5:
            sc["walk_seed"] = rng.randrange(1 << 30)
        if rng.random() < 0.25:
            sc["reorder_seed"] = rng.randrange(1 << 30)

    def setup(self, world, sc):
        return {"params": sc["params"], "phase": "strategy", "each": 0, "plain": 0, "queue": None, "hits": {}, "queried": set(), "minimal_done": False, "query_started": False}

    def choose(self, world, st, rng, step):
        p = st["params"]
        ph = st["phase"]
        if ph == "strategy":
            st["phase"] = "skipping"
            s = p["strategy"]
            if s == "bfs":
                return {"op": "bfs", "node": None, "level": None, "size": p["size"]}
            if s == "dfs":
                return {"op": "dfs", "node": None, "stack": None, "size": p["size"]}
            if s == "minimal":
                return {"op": "minimal", "node": None, "size": p["size"], "skip": False}
            if s == "attr_seeds":
                return {"op": "attr_seeds", "size": p["size"]}
            if s == "block":
                return {"op": "block", "maa": False, "size": p["size"], "opt_src": rng.random() < 0.5, "exact": False}
            ph = "skipping"
        if ph == "skipping":
            stubs = world.stubs()
            if p.get("sub") and not st.get("sub_done") and stubs:
                st["sub_done"] = True
                sp = world.space_of(rng.choice(stubs))
                if p["sub"] == "minimal":
                    return {"op": "minimal", "node": sp, "size": None, "skip": False}
                if p["sub"] == "bfs":
                    return {"op": "bfs", "node": sp, "level": rng.choice([None, 1]), "size": None}
                return {"op": "dfs", "node": sp, "stack": None, "size": None}
            if stubs and st["each"] < p["n_each"]:
                st["each"] += 1
                return {"op": "skip_to_minimal", "node": world.space_of(rng.choice(stubs))}
            if stubs and st["plain"] < p["extra_plain"]:
                st["plain"] += 1
                return {"op": "expand_one", "node": world.space_of(rng.choice(stubs))}
            c = p["completion"]
            if c == "skip_each" and stubs:
                return {"op": "skip_to_minimal", "node": world.space_of(rng.choice(stubs))}
            if c == "minimal_skip" and not st["minimal_done"]:
                st["minimal_done"] = True
                return {"op": "minimal", "node": None, "size": None, "skip": True}
            st["phase"] = "query"
            if c in ("skip_remaining", "minimal_skip"):
                return {"op": "skip_remaining"}
        if st["phase"] == "query":
            if st["queue"] is None:
                q = list(world.node_ids())
                rng.shuffle(q)
                if p.get("id_order"):
                    q = sorted(q, reverse=True)  # popped from the end: node 0 first
                st["queue"] = [world.space_of(i) for i in q]
                st["query_started"] = True
            if not st["queue"]:
                return None
            return {"op": "seeds", "node": st["queue"].pop(), "compute": True, "fallback": False, "q": True}
        return None

    def check_step(self, world, st, op, out, step):
        site = op["op"]
        if out["cls"] in ("crash", "limit_error", "key_error"):
            return [viol(self.ID, "op_raised", step, {"op": op, "cls": out["cls"], "type": out.get("type"), "msg": out.get("msg")}, site)]
        if out["cls"] == "ok" and op["op"] in ("skip_to_minimal", "skip_remaining", "minimal"):
            # a skip node is connected to trap spaces *inside* it
            sd = world.sd
            ref = world.ref
            for i in world.node_ids():
                if sd.node_data(i)["skipped"]:
                    mv = world.node_mv(i)
                    for s_ in sd.dag.successors(i):
                        if not ref.subspace(world.node_mv(s_), mv):
                            return [viol(self.ID, "skip_edge_leaves_the_node", step, {"node": world.space_of(i), "successor": world.space_of(s_)}, site)]
        if out["cls"] != "ok" or op["op"] != "seeds":
            return []
        if not op.get("q"):
            return []
        st["query_started"] = True
        nid = world.node_of(op["node"])
        d = world.sd.node_data(nid)
        # sound: every reported seed lies in an attractor inside its node's trap space
        v, hits = check_seeds(world, self.ID, nid, out["value"], step, "skipped" if d["skipped"] else ("expanded" if d["expanded"] else "stub"), exact=False, in_successor_ok=True)
        if v:
            return v
        st["hits"][nid] = hits
        st["queried"].add(nid)
        return []

    def check_end(self, world, st, step):
        sd = world.sd
        if not st["query_started"]:
            return []
        skipped = [i for i in world.node_ids() if sd.node_data(i)["skipped"]]
        st["n_skipped"] = len(skipped)
        if not skipped:
            return []  # C01's scenario, not C05's
        if any(i not in st["queried"] for i in world.node_ids()):
            return []
        ref = world.ref
        count = {}
        for i, hits in st["hits"].items():
            for k in hits:
                count[k] = count.get(k, 0) + 1
        for k in range(len(ref.attractors())):
            if count.get(k, 0) == 0:
                return [viol(self.ID, "attractor_lost", step, {"attractor": sorted(ref.attractors()[k])[:8], "skipped": [world.space_of(i) for i in skipped]}, "end")]
        if not ref.maa() and not world.stubs():
            for k in range(len(ref.attractors())):
                if count.get(k, 0) != 1:
                    where = [world.space_of(i) for i, h in st["hits"].items() if k in h]
                    return [viol(self.ID, "attractor_reported_twice_without_maa", step, {"attractor": sorted(ref.attractors()[k])[:8], "count": count[k], "nodes": where}, "end")]
        return []

    def classify(self, res, world, st):
        res["nontrivial"] = st.get("n_skipped", 0) >= 1 and len(world.ref.attractors()) >= 2
        res["case_key"] = res["log_digest"]
        res["stats"]["skipped"] = st.get("n_skipped", 0)
        res["stats"]["maa"] = len(world.ref.maa()) if st.get("n_skipped") else None


MACHINE = C05()
