"""C08 — attractor candidates cover every attractor under every option and limit
setting (DESIGN.md §4 C08).

Allowed outcomes (the property enumerates them): a resource-limit error, or a
list of full states inside the node such that every attractor of own(node)
contains a candidate.  Anything else is a violation."""

from __future__ import annotations

from ..machine import Machine, pick_node, structural_op, viol
from ..netgen import DEFAULT_CONFIG
from ..oracles import check_candidates, skip_exempt
from ..ops import World

KNOBS = ["attractor_candidates_limit", "retained_set_optimization_threshold", "minimum_simulation_budget", "nfvs_size_threshold"]


class C08(Machine):
    ID = "C08"
    FAMILY_WEIGHTS = {"sparse": 3, "dense": 3, "canal": 1, "modular": 2, "maa": 3, "cascade": 1, "maa_cascade": 3, "degenerate": 1, "maa_deadpad": 1, "inputs_mix": 2, "osc_latches": 2}
    NMAX = {"quick": 6, "thorough": 8}

    def gen_params(self, sc, rng):
        sc["params"] = {"prefix": rng.choice([0, 0, 1, 2, 3]), "queries": rng.randint(1, 3), "knob_mode": rng.choice(["default", "random", "relative", "relative"])}
        if rng.random() < 0.15:
            # block scan: non-default limits from the start, block expansion / build (whose
            # motif-avoidance checks run candidate searches under those limits and record
            # "no attractor here" results), then the candidates of every node
            sc["params"] = {"mode": "block_scan", "op": rng.choice(["block", "block", "build", "scc"]), "prefix": 0, "queries": 14, "knob_mode": "default"}
            cfg = dict(DEFAULT_CONFIG)
            for k in ("attractor_candidates_limit", "retained_set_optimization_threshold"):
                if rng.random() < 0.8:
                    cfg[k] = rng.choice([0, 1, 1, 2, 2, 3, 5])
            if rng.random() < 0.3:
                cfg["minimum_simulation_budget"] = rng.choice([0, 1, 10])
            sc["config"] = cfg
        elif rng.random() < 0.35:
            # skip scan: partial expansion, skipping, then candidates of every node in a seeded
            # order (skip nodes prune by what other nodes already proved empty)
            sc["params"] = {"mode": "skip_scan", "expand": rng.randint(1, 4), "skip": rng.choice(["remaining", "each", "remaining"]), "prefix": 0, "queries": 14, "knob_mode": "default"}
        if rng.random() < 0.5:
            sc["walk_seed"] = rng.randrange(1 << 30)
        if rng.random() < 0.3:
            sc["reorder_seed"] = rng.randrange(1 << 30)

    def gen_scenario(self, run_seed, tier):
        sc = super().gen_scenario(run_seed, tier)
        if sc["params"].get("mode") in ("skip_scan", "block_scan"):
            from ..machine import sub_rng
            from ..netgen import gen_network

            rng = sub_rng(run_seed, "net-skip-scan")
            if rng.random() < 0.7:
                sc["net"] = gen_network(rng, {"maa_cascade": 3, "maa": 1}, nmax=self.NMAX.get(tier, 6), fmts=self.FMTS)
        return sc

    def setup(self, world, sc):
        return {"params": sc["params"], "n_prefix": 0, "n_q": 0, "pending": [], "sc": sc, "checked": 0, "limit_errors": 0, "knob_values": []}

    def dry_count(self, world, st, nid, greedy, sim):
        """Candidate count of the same call under default knobs, on a twin world that
        replays the ops executed so far (faithful walk, real model order)."""
        sc = st["sc"]
        twin = World(sc["net"], None, sc.get("walk_seed"), sc.get("reorder_seed"), budget=True)
        for rec in world.log[1:]:
            if rec["op"]["op"] == "set_knob":
                continue
            twin.apply(rec["op"])
        counts = []
        for g, s in ((False, False), (greedy, sim)):
            t2 = twin if (g, s) == (greedy, sim) else None
            w = World(sc["net"], None, sc.get("walk_seed"), sc.get("reorder_seed"), budget=True)
            for rec in world.log[1:]:
                if rec["op"]["op"] != "set_knob":
                    w.apply(rec["op"])
            out = w.apply({"op": "candidates", "node": world.space_of(nid), "compute": True, "greedy": g, "sim": s})
            if out["cls"] == "ok":
                counts.append(len(out["value"]))
        return counts

    def choose(self, world, st, rng, step):
        p = st["params"]
        if st["pending"]:
            return st["pending"].pop(0)
        if p.get("mode") == "skip_scan":
            return self.choose_skip_scan(world, st, rng, step)
        if p.get("mode") == "block_scan":
            if st["n_prefix"] == 0:
                st["n_prefix"] = 1
                if p["op"] == "block":
                    return {"op": "block", "maa": True, "size": None, "opt_src": rng.random() < 0.7, "exact": False}
                if p["op"] == "scc":
                    return {"op": "scc", "maa": True}
                return {"op": "build"}
            if st.get("queue") is None:
                q = list(world.node_ids())
                rng.shuffle(q)
                st["queue"] = [world.space_of(i) for i in q][: p["queries"]]
            if not st["queue"]:
                return None
            return {"op": "candidates", "node": st["queue"].pop(), "compute": True, "greedy": rng.random() < 0.7, "sim": rng.random() < 0.7, "q": True}
        if st["n_prefix"] < p["prefix"]:
            st["n_prefix"] += 1
            return structural_op(world, rng)
        if st["n_q"] >= p["queries"]:
            return None
        st["n_q"] += 1
        # a node with no cached attractor data
        def fresh(i):
            d = world.sd.node_data(i)
            return d["attractor_candidates"] is None and d["attractor_seeds"] is None
        nid = pick_node(world, rng, fresh)
        if nid is None:
            return None
        greedy = rng.random() < 0.5
        sim = rng.random() < 0.5
        q = {"op": "candidates", "node": world.space_of(nid), "compute": True, "greedy": greedy, "sim": sim, "q": True}
        ops = []
        mode = p["knob_mode"]
        if mode != "default":
            counts = self.dry_count(world, st, nid, greedy, sim) if mode == "relative" else []
            for k in KNOBS:
                if rng.random() < 0.55:
                    if k == "minimum_simulation_budget":
                        val = rng.choice([0, 1, 10, 100, 1000])
                    else:
                        pool = [0, 1, 2, 3, 5, DEFAULT_CONFIG[k]]
                        for c in counts:
                            pool += [max(0, c - 1), c, c + 1]
                        val = rng.choice(pool)
                    ops.append({"op": "set_knob", "name": k, "value": val})
                else:
                    ops.append({"op": "set_knob", "name": k, "value": DEFAULT_CONFIG[k]})
        ops.append(q)
        st["pending"] = ops[1:]
        return ops[0]

    def choose_skip_scan(self, world, st, rng, step):
        p = st["params"]
        ph = st.setdefault("phase", "expand")
        if ph == "expand":
            if st["n_prefix"] == 0:
                st["n_prefix"] = 1
                return {"op": "expand_one", "node": world.space_of(0)}
            stubs = world.stubs()
            if st["n_prefix"] <= p["expand"] and stubs:
                st["n_prefix"] += 1
                return {"op": "expand_one", "node": world.space_of(rng.choice(stubs))}
            st["phase"] = ph = "skip"
        if ph == "skip":
            stubs = world.stubs()
            if p["skip"] == "each" and stubs and st["n_q"] < 3:
                st["n_q"] += 1
                return {"op": "skip_to_minimal", "node": world.space_of(rng.choice(stubs))}
            st["phase"] = "scan"
            st["n_q"] = 0
            return {"op": "skip_remaining"}
        # scan
        if st.get("queue") is None:
            q = list(world.node_ids())
            rng.shuffle(q)
            st["queue"] = [world.space_of(i) for i in q][: p["queries"]]
        while st["queue"]:
            sp = st["queue"].pop()
            nid = world.node_of(sp)
            d = world.sd.node_data(nid)
            if d["attractor_candidates"] is None and d["attractor_seeds"] is None:
                return {"op": "candidates", "node": sp, "compute": True, "greedy": rng.random() < 0.7, "sim": rng.random() < 0.7, "q": True}
        return None

    def check_step(self, world, st, op, out, step):
        if not op.get("q"):
            return []
        site = f'greedy={int(op["greedy"])},sim={int(op["sim"])}'
        nid = world.node_of(op["node"])
        cfg = {k: world.sd.config[k] for k in KNOBS}
        if out["cls"] == "limit_error":
            st["limit_errors"] += 1
            return []
        if out["cls"] in ("crash", "key_error"):
            return [viol(self.ID, "unexpected_exception", step, {"op": op, "type": out.get("type"), "msg": out.get("msg"), "config": cfg}, site)]
        if out["cls"] != "ok":
            return []
        st["checked"] += 1
        d = world.sd.node_data(nid)
        v = check_candidates(world, self.ID, nid, out["value"], step, site, exempt=skip_exempt_before(world, nid, out["value"]))
        for x in v:
            x["detail"]["config"] = cfg
        return v

    def classify(self, res, world, st):
        res["nontrivial"] = st.get("checked", 0) + st.get("limit_errors", 0) > 0 and len(world.ref.attractors()) >= 1 and world.ref.n >= 2
        res["case_key"] = res["log_digest"]
        res["stats"]["limit_errors"] = st.get("limit_errors", 0)
        res["stats"]["candidate_lists_checked"] = st.get("checked", 0)


def skip_exempt_before(world, nid, value):
    """The exemption is evaluated against the caches as they were at call time.  The
    call itself only writes the queried node's own cache, and a node is never its own
    non-ancestor (a node is a subspace of itself), so evaluating it after the call
    gives the same set."""
    if not world.sd.node_data(nid)["skipped"]:
        return None
    return skip_exempt(world, nid)


MACHINE = C08()
