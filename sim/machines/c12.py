"""C12 — attractor sets are the complete attractors and the symbolic fallback
agrees (DESIGN.md §4 C12)."""

from __future__ import annotations

from ..machine import Machine, cache_op, pick_node, structural_op, viol
from ..oracles import check_seeds, check_sets
from ..ops import World


class C12(Machine):
    ID = "C12"
    FAMILY_WEIGHTS = {"sparse": 3, "dense": 3, "canal": 1, "modular": 2, "maa": 3, "cascade": 1, "maa_cascade": 4, "degenerate": 1, "maa_deadpad": 1, "inputs_mix": 2}
    NMAX = {"quick": 6, "thorough": 8}
    FMTS = ("bnet", "aeon", "api")
    SHUFFLE_ORDER = True

    def gen_params(self, sc, rng):
        sc["params"] = {"prefix": rng.choice([0, 1, 2, 3]), "queries": rng.randint(2, 7), "p_fault": 0.25, "p_twin": 0.35}
        # interleaved histories: the diagram keeps growing between set queries, so that sets
        # cached on a stub meet a later expansion (any strategy, incl. the source shortcuts)
        sc["params"]["p_grow"] = rng.choice([0.0, 0.0, 0.25, 0.4])
        if rng.random() < 0.15:
            # skip-fallback histories: partial expansion, seeds on some expanded nodes (cached
            # empty results are what skip nodes prune by), skipping, then the default method
            # and the forced symbolic fallback on the skip nodes and their neighbours
            from ..machine import sub_rng
            from ..netgen import gen_network

            sc["params"].update({"mode": "skip_fallback", "prefix": 0, "sf_expand": rng.randint(0, 3), "sf_how": rng.choice(["skip_remaining", "skip_remaining", "skip_each"]), "queries": rng.randint(4, 8), "p_twin": 0.6, "p_grow": 0.0})
            sc["net"] = gen_network(sub_rng(sc["run_seed"], "net-skip-fallback"), {"maa_cascade": 4, "maa": 2, "modular": 1}, nmax=self.NMAX.get(sc["tier"], 6), fmts=self.FMTS)
        if rng.random() < 0.5:
            sc["walk_seed"] = rng.randrange(1 << 30)
        if rng.random() < 0.25:
            sc["reorder_seed"] = rng.randrange(1 << 30)
        if rng.random() < 0.2:
            # tight candidate limits: the default method gives up with the documented limit
            # error and seeds are obtained through the symbolic fallback (public flag)
            from ..netgen import DEFAULT_CONFIG

            cfg = dict(DEFAULT_CONFIG)
            cfg["attractor_candidates_limit"] = rng.choice([0, 1, 1, 2])
            cfg["retained_set_optimization_threshold"] = rng.choice([0, 1, 1, 2])
            sc["config"] = cfg
            sc["params"]["tight"] = True

    def setup(self, world, sc):
        return {"params": sc["params"], "sc": sc, "n_prefix": 0, "n_q": 0, "sets_checked": 0, "fallback_runs": 0, "complex_sets": 0}

    def choose(self, world, st, rng, step):
        p = st["params"]
        if st["n_prefix"] < p["prefix"]:
            st["n_prefix"] += 1
            return structural_op(world, rng)
        if p.get("mode") == "skip_fallback" and not st.get("sf_done"):
            k = st.get("sf_step", 0)
            st["sf_step"] = k + 1
            if k == 0:
                return {"op": "expand_one", "node": world.space_of(0)}
            stubs = world.stubs()
            if k <= p["sf_expand"] and stubs:
                return {"op": "expand_one", "node": world.space_of(rng.choice(stubs))}
            if k <= p["sf_expand"] + 2:
                exp = [i for i in world.node_ids() if world.sd.node_data(i)["expanded"] and world.sd.node_data(i)["attractor_seeds"] is None]
                if exp and rng.random() < 0.7:
                    return {"op": "seeds", "node": world.space_of(rng.choice(exp)), "compute": True, "fallback": False}
            if p["sf_how"] == "skip_each" and stubs and k <= p["sf_expand"] + 6:
                return {"op": "skip_to_minimal", "node": world.space_of(rng.choice(stubs))}
            st["sf_done"] = True
            if stubs:
                return {"op": "skip_remaining"}
        if st["n_q"] >= p["queries"]:
            return None
        st["n_q"] += 1
        if p.get("p_grow") and rng.random() < p["p_grow"]:
            if rng.random() < 0.5:
                # the strategies that mark nodes expanded without the per-node expansion routine
                return rng.choice([{"op": "block", "maa": rng.random() < 0.6, "size": None, "opt_src": True, "exact": False}, {"op": "scc", "maa": rng.random() < 0.6}, {"op": "build"}])
            return structural_op(world, rng)
        if rng.random() < 0.08:
            # read-only calls between the queries (they must not disturb what is cached)
            from ..machine import query_op

            return query_op(world, rng)
        r = rng.random()
        if r < p["p_fault"]:
            rr = rng.random()
            if rr < 0.35:
                return {"op": "reclaim"}
            if rr < 0.65:
                return cache_op(world, rng)
            return {"op": "pickle"}
        nid = pick_node(world, rng)
        if p.get("mode") == "skip_fallback" and rng.random() < 0.7:
            sk = [i for i in world.node_ids() if world.sd.node_data(i)["skipped"] and world.sd.node_data(i)["attractor_seeds"] is None]
            if sk:
                nid = rng.choice(sk)
        sp = world.space_of(nid)
        d = world.sd.node_data(nid)
        if d["attractor_seeds"] is None and rng.random() < p["p_twin"]:
            return {"op": "noop", "fallback_twin": sp}
        kind = rng.choice(["candidates", "seeds", "sets", "sets"])
        if kind == "candidates":
            return {"op": "candidates", "node": sp, "compute": True, "greedy": True, "sim": True}
        if kind == "seeds":
            return {"op": "seeds", "node": sp, "compute": True, "fallback": bool(p.get("tight")) and rng.random() < 0.7}
        return {"op": "sets", "node": sp, "compute": True}

    # ------------------------------------------------------------------ checks
    def check_step(self, world, st, op, out, step):
        if op.get("fallback_twin") is not None:
            return self.fallback_twin(world, st, op, step)
        if out["cls"] == "limit_error" and st["params"].get("tight"):
            return []  # the documented resource-limit error under non-default limits
        if out["cls"] in ("crash", "key_error", "limit_error") and op["op"] in ("candidates", "seeds", "sets"):
            return [viol(self.ID, "query_raised", step, {"op": op, "cls": out["cls"], "type": out.get("type"), "msg": out.get("msg")}, op["op"])]
        if out["cls"] != "ok" or op["op"] != "sets":
            return []
        nid = world.node_of(op["node"])
        d = world.sd.node_data(nid)
        from ..ops import canon_spaces

        seeds = canon_spaces(world.sd.node_attractor_seeds(nid, compute=False))
        site = "skipped" if d["skipped"] else ("expanded" if d["expanded"] else "stub")
        v = check_sets(world, self.ID, nid, seeds, out["value"], step, site)
        st["sets_checked"] += 1
        st["complex_sets"] += sum(1 for s in out["value"] if len(s) > 1)
        return v

    def fallback_twin(self, world, st, op, step):
        sc = st["sc"]
        sp = op["fallback_twin"]
        nid = world.node_of(sp)
        if nid is None:
            return []
        if world.sd.node_data(nid)["attractor_seeds"] is not None:
            return []
        twin = World(sc["net"], sc.get("config"), sc.get("walk_seed"), sc.get("reorder_seed"), budget=True)
        for rec in world.log[1:]:
            if rec["op"].get("fallback_twin") is not None:
                continue
            twin.apply(rec["op"])
        # default method on the original
        o1 = world.apply({"op": "seeds", "node": sp, "compute": True, "fallback": False})
        s1 = world.apply({"op": "sets", "node": sp, "compute": True})
        # forced fallback on the twin: the first solver interaction of the candidate search fails
        o2 = twin.apply({"op": "seeds", "node": sp, "compute": True, "fallback": True, "fail_at": 1})
        if not o2["fired"]:
            return []  # candidates were cached / no solver call: the fallback did not run
        st["fallback_runs"] += 1
        world.fault_counts["solver_failure"] = world.fault_counts.get("solver_failure", 0) + len(o2["fired"])
        site = "fallback"
        d = world.sd.node_data(nid)
        site += ":skipped" if d["skipped"] else (":expanded" if d["expanded"] else ":stub")
        if o1["cls"] != "ok" or s1["cls"] != "ok":
            return []
        if o2["cls"] != "ok":
            if o2["cls"] in ("crash", "key_error", "limit_error", "injected_failure"):
                return [viol(self.ID, "fallback_raised", step, {"node": sp, "cls": o2["cls"], "type": o2.get("type"), "msg": o2.get("msg")}, site)]
            return []
        s2 = twin.apply({"op": "sets", "node": sp, "compute": False})
        ref = world.ref

        def atts(seeds):
            res = set()
            for c in seeds:
                s = ref.state2int({k: v for k, v in c})
                k = ref.attractor_index_of(s) if s is not None else None
                res.add(k if k is not None else ("not-in-attractor", str(c)))
            return res

        a1 = atts(o1["value"])
        a2 = atts(o2["value"])
        if a1 != a2 or len(o1["value"]) != len(o2["value"]):
            return [viol(self.ID, "fallback_attractors_differ_from_default", step, {"node": sp, "default": o1["value"], "fallback": o2["value"]}, site)]
        if s2["cls"] == "ok":
            v = check_sets(twin, self.ID, twin.node_of(sp), o2["value"], s2["value"], step, site, what="fallback_sets")
            if v:
                return v
            if sorted(map(tuple, s2["value"])) != sorted(map(tuple, s1["value"])):
                return [viol(self.ID, "fallback_sets_differ_from_default", step, {"node": sp}, site)]
        return []

    def classify(self, res, world, st):
        res["nontrivial"] = st.get("sets_checked", 0) + st.get("fallback_runs", 0) > 0
        res["case_key"] = res["log_digest"]
        res["stats"]["sets_checked"] = st.get("sets_checked", 0)
        res["stats"]["fallback_runs"] = st.get("fallback_runs", 0)
        res["stats"]["complex_sets"] = st.get("complex_sets", 0)

    def evidence_extra(self, results):
        return {
            "attractor_set_lists_checked": sum((r.get("stats") or {}).get("sets_checked", 0) for r in results),
            "complex_attractor_sets_checked": sum((r.get("stats") or {}).get("complex_sets", 0) for r in results),
            "forced_fallback_twin_runs": sum((r.get("stats") or {}).get("fallback_runs", 0) for r in results),
        }


MACHINE = C12()
