"""C14 — cached attractor data is never stale (DESIGN.md §4 C14).

Invariant after every step, for every node and every kind of data the node
reports with compute=False.  `wrong_at_birth` (the data was already wrong at the
step that computed it: owned by C01/C08/C12) is separated from `stale` (was
right, is wrong now)."""

from __future__ import annotations

from .. import dump as D
from ..machine import Machine, attr_op, cache_op, structural_op, viol
from ..oracles import check_candidates, check_seeds, check_sets, skip_exempt


class C14(Machine):
    ID = "C14"
    FAMILY_WEIGHTS = {"sparse": 3, "dense": 1, "canal": 3, "modular": 4, "maa": 3, "cascade": 2, "maa_cascade": 2, "degenerate": 1, "maa_deadpad": 1, "inputs_mix": 2, "osc_latches": 2}
    NMAX = {"quick": 6, "thorough": 8}
    FMTS = ("bnet", "aeon", "api")
    SHUFFLE_ORDER = True

    def gen_params(self, sc, rng):
        sc["params"] = {"len": rng.randint(2, 9), "p_attr": rng.choice([0.35, 0.5]), "p_cache": 0.08, "p_pickle": 0.06}
        # a share of the histories starts by turning a node into a skip node and querying it:
        # expanded-but-skipped nodes can still receive new successors (SCC attachment)
        sc["params"]["skip_first"] = rng.random() < 0.15
        # another share: expand the root, query every stub (one kind of query only, so that e.g.
        # candidates are cached without seeds), then turn the stubs into skip nodes in one of
        # the three ways
        if not sc["params"]["skip_first"] and rng.random() < 0.12:
            sc["params"]["stub_then_skip"] = {"kind": rng.choice(["candidates", "candidates", "seeds", "sets"]), "how": rng.choice(["minimal_skip", "minimal_skip", "skip_remaining", "skip_each"])}
            sc["params"]["len"] = max(sc["params"]["len"], 8)
        if rng.random() < 0.4:
            sc["walk_seed"] = rng.randrange(1 << 30)
        if rng.random() < 0.2:
            sc["reorder_seed"] = rng.randrange(1 << 30)

    def setup(self, world, sc):
        # birth[(space, kind)] = value digest that was verified correct when first seen
        return {"params": sc["params"], "good": {}, "stale_checks": 0, "invalidations": 0}

    def choose(self, world, st, rng, step):
        p = st["params"]
        if step >= p["len"]:
            return None
        if p.get("skip_first") and step < 3:
            if step == 0:
                return {"op": "skip_to_minimal", "node": world.space_of(0)}
            if step == 1:
                return attr_op(world, rng, nid=0)
            return {"op": "scc", "maa": rng.random() < 0.5}
        sts = p.get("stub_then_skip")
        if sts and not st.get("sts_done"):
            if step == 0:
                return {"op": "expand_one", "node": world.space_of(0)}
            stubs = world.stubs()
            todo = [n for n in stubs if n not in st.setdefault("sts_q", set())][:4]
            if todo and step <= 4:
                st["sts_q"].add(todo[0])
                sp = world.space_of(todo[0])
                if sts["kind"] == "candidates":
                    return {"op": "candidates", "node": sp, "compute": True, "greedy": rng.random() < 0.6, "sim": rng.random() < 0.6}
                return {"op": sts["kind"], "node": sp, "compute": True} if sts["kind"] == "sets" else {"op": "seeds", "node": sp, "compute": True, "fallback": False}
            if sts["how"] == "skip_each" and stubs and step <= 7:
                done = st.setdefault("sts_s", set())
                rest = [n for n in stubs if n not in done]
                if rest:
                    done.add(rest[0])
                    return {"op": "skip_to_minimal", "node": world.space_of(rest[0])}
            st["sts_done"] = True
            if sts["how"] == "minimal_skip":
                return {"op": "minimal", "node": None, "size": None, "skip": True}
            if sts["how"] == "skip_remaining":
                return {"op": "skip_remaining"}
        r = rng.random()
        if r < p["p_attr"]:
            # bias toward unexpanded nodes: that is where staleness is born
            stubs = world.stubs()
            if stubs and rng.random() < 0.75:
                return attr_op(world, rng, nid=rng.choice(stubs))
            return attr_op(world, rng)
        r -= p["p_attr"]
        if r < p["p_cache"]:
            return cache_op(world, rng)
        r -= p["p_cache"]
        if r < p["p_pickle"]:
            return {"op": "pickle"}
        if rng.random() < 0.08:
            # read-only calls (summary, depth, find_node, percolated data ...) must leave every
            # cached answer as it was
            from ..machine import query_op

            return query_op(world, rng)
        if rng.random() < 0.12:
            # the third way a stub becomes a skip node (besides skip_to_minimal / skip_remaining)
            from ..machine import rand_limit

            return {"op": "minimal", "node": None, "size": rand_limit(rng, world, 0.6), "skip": True}
        return structural_op(world, rng)

    def check_node(self, world, nid, step, site):
        """Returns (violation list, dict kind->digest of reported data)."""
        data = D.node_attr_data(world, nid)
        d = world.sd.node_data(nid)
        seen = {}
        skipped = bool(d["skipped"])
        v = []
        if "seeds" in data:
            seeds = [[list(p) for p in s] for s in data["seeds"]]
            seen["seeds"] = D.digest(seeds)
            if skipped:
                vv, _ = check_seeds(world, self.ID, nid, seeds, step, site, exact=False)
            else:
                vv, _ = check_seeds(world, self.ID, nid, seeds, step, site, exact=True)
            v += vv
        if not v and "sets" in data and "seeds" in data:
            seen["sets"] = D.digest(data["sets"])
            v += check_sets(world, self.ID, nid, [[list(p) for p in s] for s in data["seeds"]], [list(x) for x in data["sets"]], step, site)
        if not v and "candidates" in data:
            cands = [[list(p) for p in s] for s in data["candidates"]]
            seen["candidates"] = D.digest(cands)
            v += check_candidates(world, self.ID, nid, cands, step, site, exempt=skip_exempt(world, nid) if skipped else None, outside_successors=bool(d["expanded"]))
        return v, seen

    def check_step(self, world, st, op, out, step):
        if out["cls"] in ("budget_exceeded",):
            return []
        site = op["op"]
        good = st["good"]
        now = {}
        for nid in world.node_ids():
            sp = D._cs(world.sd.node_data(nid)["space"])
            v, seen = self.check_node(world, nid, step, site)
            if v:
                vi = v[0]
                # which kind failed?  classify birth vs staleness
                kind = "seeds" if vi["invariant"].startswith("seeds") else ("sets" if vi["invariant"].startswith("sets") else "candidates")
                was_good = (sp, kind) in good and good[(sp, kind)] == seen.get(kind)
                vi["detail"]["kind"] = kind
                vi["detail"]["underlying"] = vi["invariant"]
                vi["invariant"] = "stale" if was_good else "wrong_at_birth"
                if was_good:
                    vi["detail"]["stale_after"] = op
                return [vi]
            for k, dg in seen.items():
                now[(sp, k)] = dg
        # everything reported now was verified correct now
        dropped = [k for k in good if k not in now]
        st["invalidations"] += len(dropped)
        st["stale_checks"] += sum(1 for k in now if k in good)
        st["good"] = now
        return []

    def classify(self, res, world, st):
        kinds = [k.split(":")[0] for k in res["stats"]["op_kinds"][1:]]
        has_attr = any(k in ("candidates", "seeds", "sets") for k in kinds)
        has_struct = any(k in ("expand_one", "bfs", "dfs", "minimal", "attr_seeds", "to_target", "block", "scc", "build", "skip_to_minimal", "skip_remaining") for k in kinds)
        res["nontrivial"] = has_attr and has_struct and st.get("stale_checks", 0) > 0
        res["case_key"] = res["log_digest"]
        res["stats"]["carried_over_checks"] = st.get("stale_checks", 0)
        res["stats"]["invalidations"] = st.get("invalidations", 0)


MACHINE = C14()
