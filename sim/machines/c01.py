"""C01 — reported attractor seeds correspond one-to-one to the network's attractors
after a complete strategy with default settings (DESIGN.md §4 C01)."""

from __future__ import annotations

from ..machine import Machine, viol
from ..oracles import check_seeds

STRATEGIES = ["build", "block", "bfs", "dfs", "scc", "attr_seeds"]


class C01(Machine):
    ID = "C01"
    FAMILY_WEIGHTS = {"sparse": 3, "dense": 3, "canal": 1, "modular": 2, "maa": 3, "cascade": 1, "maa_cascade": 4, "degenerate": 1, "maa_deadpad": 1, "inputs_mix": 2}
    NMAX = {"quick": 6, "thorough": 8}

    def gen_params(self, sc, rng):
        sc["params"] = {"strategy": rng.choice(STRATEGIES), "query": rng.choice(["all", "nodewise", "nodewise_reclaim"])}
        if rng.random() < 0.5:
            sc["walk_seed"] = rng.randrange(1 << 30)
        if rng.random() < 0.33:
            sc["reorder_seed"] = rng.randrange(1 << 30)

    def setup(self, world, sc):
        return {"params": sc["params"], "phase": 0, "queue": None, "complete": False, "hits": {}, "queried": set()}

    def strategy_op(self, s):
        if s == "build":
            return {"op": "build"}
        if s == "block":
            return {"op": "block", "maa": True, "size": None, "opt_src": True, "exact": False}
        if s == "bfs":
            return {"op": "bfs", "node": None, "level": None, "size": None}
        if s == "dfs":
            return {"op": "dfs", "node": None, "stack": None, "size": None}
        if s == "scc":
            return {"op": "scc", "maa": True}
        return {"op": "attr_seeds", "size": None}

    def choose(self, world, st, rng, step):
        p = st["params"]
        if st["phase"] == 0:
            st["phase"] = 1
            op = self.strategy_op(p["strategy"])
            op["strategy"] = True
            return op
        if not st["complete"]:
            return None
        if p["query"] == "all":
            if st["phase"] == 1:
                st["phase"] = 2
                return {"op": "exp_seeds"}
            return None
        if st["queue"] is None:
            q = [i for i in world.node_ids() if world.sd.node_data(i)["expanded"]]
            rng.shuffle(q)
            st["queue"] = [world.space_of(i) for i in q]
        if not st["queue"]:
            return None
        if p["query"] == "nodewise_reclaim" and rng.random() < 0.25:
            return {"op": "reclaim"}
        return {"op": "seeds", "node": st["queue"].pop(), "compute": True, "fallback": False}

    def check_step(self, world, st, op, out, step):
        site = st["params"]["strategy"]
        if op.get("strategy"):
            if out["cls"] != "ok":
                if out["cls"] in ("crash", "limit_error", "key_error"):
                    return [viol(self.ID, "strategy_raised", step, {"op": op, "cls": out["cls"], "type": out.get("type"), "msg": out.get("msg")}, site)]
                return []
            st["complete"] = out["value"] is True or (op["op"] == "build" and out["value"] is None)
            if op["op"] == "build" and st["complete"]:
                # build() already requested seeds for every node: check them right away
                return self.check_all(world, st, step, site)
            return []
        if not st["complete"]:
            return []  # not C01's scenario (e.g. a minimisation candidate that dropped the strategy)
        if out["cls"] in ("crash", "limit_error", "key_error"):
            return [viol(self.ID, "seed_query_raised", step, {"op": op, "cls": out["cls"], "type": out.get("type"), "msg": out.get("msg")}, site)]
        if out["cls"] != "ok":
            return []
        if op["op"] == "exp_seeds":
            for i in world.node_ids():
                if not world.sd.node_data(i)["expanded"]:
                    continue
                seeds = out["value"].get(str(i), [])
                v, hits = check_seeds(world, self.ID, i, seeds, step, site)
                if v:
                    return v
                st["hits"][i] = hits
                st["queried"].add(i)
        elif op["op"] == "seeds":
            nid = world.node_of(op["node"])
            v, hits = check_seeds(world, self.ID, nid, out["value"], step, site)
            if v:
                return v
            st["hits"][nid] = hits
            st["queried"].add(nid)
        return []

    def check_all(self, world, st, step, site):
        from ..ops import canon_spaces

        for i in world.node_ids():
            d = world.sd.node_data(i)
            if not d["expanded"]:
                continue
            try:
                seeds = canon_spaces(world.sd.node_attractor_seeds(i, compute=False))
            except KeyError:
                return [viol(self.ID, "build_left_node_without_seeds", step, {"node": world.space_of(i)}, site)]
            v, hits = check_seeds(world, self.ID, i, seeds, step, site)
            if v:
                return v
            st["hits"][i] = hits
            st["queried"].add(i)
        return []

    def check_end(self, world, st, step):
        if not st["complete"]:
            return []
        site = st["params"]["strategy"]
        expanded = [i for i in world.node_ids() if world.sd.node_data(i)["expanded"]]
        if any(i not in st["queried"] for i in expanded):
            return []
        count = {}
        for i, hits in st["hits"].items():
            for k in hits:
                count[k] = count.get(k, 0) + 1
        ref = world.ref
        for k in range(len(ref.attractors())):
            c = count.get(k, 0)
            if c == 0:
                return [viol(self.ID, "attractor_not_represented", step, {"attractor": sorted(ref.attractors()[k])[:8]}, site)]
            if c > 1:
                detail = {"attractor": sorted(ref.attractors()[k])[:8], "count": c, "nodes": [world.space_of(i) for i, h in sorted(st["hits"].items()) if k in h]}
                # mechanism tag: does a reporting node lack a successor it has in the full diagram?
                try:
                    from .. import dump as D
                    from ..ops import World

                    tw = World(world.net, None, None, None, budget=True)
                    o = tw.apply({"op": "bfs", "node": None, "level": None, "size": None})
                    if o["cls"] == "ok" and o["value"] is True:
                        F = D.structure(tw)
                        cur = D.structure(world)
                        inc = []
                        for i, h in sorted(st["hits"].items()):
                            if k not in h:
                                continue
                            sp = D._cs(world.sd.node_data(i)["space"])
                            if sp in F and {c_[0] for c_ in cur[sp][0][2]} != {c_[0] for c_ in F[sp][0][2]}:
                                inc.append(world.space_of(i))
                        detail["incomplete_successor_lists"] = inc
                        if inc and site == "scc":
                            detail["mechanism"] = "scc_attach_incomplete_successors"
                except Exception:  # noqa: BLE001
                    pass
                return [viol(self.ID, "attractor_represented_twice", step, detail, site)]
        return []

    def classify(self, res, world, st):
        ref = world.ref
        res["nontrivial"] = bool(st.get("complete")) and (len(ref.attractors()) >= 2 or any(len(a) > 1 for a in ref.attractors()))
        res["case_key"] = res["log_digest"]
        res["stats"]["maa"] = len(ref.maa()) if st.get("complete") else None
        res["stats"]["complete"] = bool(st.get("complete"))


MACHINE = C01()
