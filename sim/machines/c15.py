"""C15 — early stops and limit errors leave a valid, resumable diagram
(level: fault_enumeration; DESIGN.md §4 C15).

For a sampled (network, prefix P, operation O) the check does not sample fault
points, it enumerates them: every size / level / stack limit value, a solver
failure at every clingo fault point of O, and the configured resource limits at
and below the actual counts.  After each interrupted attempt: the post-state must
be a valid partial diagram; then O is repeated with relaxed limits and must give
the same result as the never-interrupted twin U."""

from __future__ import annotations

from .. import dump as D
from ..machine import Machine, attr_op, finish, new_result, pick_node, plain_op, sub_rng, viol
from ..netgen import DEFAULT_CONFIG, gen_target
from ..ops import World
from .c14 import C14

RESUMABLE = ("bfs", "dfs", "minimal", "attr_seeds", "to_target")
QUERIES = ("seeds", "candidates", "sets")
MAX_SUBRUNS = 140
_c14 = C14()


class C15(Machine):
    ID = "C15"
    LEVEL = "fault_enumeration"
    FAMILY_WEIGHTS = {"sparse": 3, "dense": 1, "canal": 3, "modular": 4, "maa": 2, "cascade": 3, "maa_cascade": 4, "degenerate": 1, "inputs_mix": 2, "osc_latches": 3}
    NMAX = {"quick": 6, "thorough": 7}
    RULE = "one evaluation = one sampled (network, prefix, operation) whose fault space is enumerated: every size limit 1..final size+1, every level/stack limit 0..depth+1, a solver failure at every clingo fault point (all while <=64, seeded sample of 64 beyond; 'light' evaluations sample 6), configured limits at and below the actual counts; distinct = distinct event-log digest; non-trivial = at least 3 interrupted attempts of which at least one really stopped early or raised"

    def gen_scenario(self, run_seed, tier):
        sc = super().gen_scenario(run_seed, tier)
        if sc["params"]["kind"] in ("scc", "block"):
            # several source SCCs / blocks only exist in modular networks
            from ..netgen import gen_network

            rng = sub_rng(run_seed, "net-modular")
            if rng.random() < 0.75:
                sc["net"] = gen_network(rng, {"modular": 3, "maa": 1}, nmax=self.NMAX.get(tier, 6), fmts=self.FMTS)
        return sc

    def gen_params(self, sc, rng):
        kind = rng.choice(["bfs", "dfs", "minimal", "attr_seeds", "attr_seeds", "to_target", "block", "block", "scc", "scc", "scc", "seeds", "seeds", "candidates", "sets"])
        sc["params"] = {"kind": kind, "prefix": 0 if kind in ("block", "scc") else rng.choice([0, 0, 1, 2, 3]), "p_attr": 0.2}
        # light evaluations: every size / level / stack limit, but only a handful of solver fault
        # points — several times cheaper, so more (network, prefix, operation) triples per batch
        sc["params"]["light"] = kind in RESUMABLE and rng.random() < 0.5
        if rng.random() < 0.3:
            sc["walk_seed"] = rng.randrange(1 << 30)
        # how the solver fails in this history: RuntimeError (clingo error) or MemoryError (bad_alloc)
        sc["params"]["fail_exc"] = "memory" if rng.random() < 0.3 else "runtime"

    # ---------------------------------------------------------------- helpers
    def fresh(self, sc, P):
        w = self.make_world(sc)
        if w.log[0]["out"]["cls"] != "ok":
            return None
        for op in P:
            out = w.apply(op)
            if out["cls"] == "budget_exceeded":
                return None
        return w

    def gen_history(self, sc):
        """Adaptive generation of P and O on a scratch world."""
        p = sc["params"]
        rng = sub_rng(sc["ops_seed"], "ops")
        w = self.make_world(sc)
        if w.log[0]["out"]["cls"] != "ok":
            return None
        P = []
        k = p["kind"]
        if k in ("bfs", "dfs") and rng.random() < 0.7:
            # partial expansions from the root, so that the limited call later meets regions
            # that are already expanded above unexpanded ones
            for _ in range(rng.randint(1, 3)):
                r = rng.random()
                if r < 0.4:
                    op = {"op": "bfs", "node": None, "level": rng.choice([0, 1, 1, 2]), "size": None}
                elif r < 0.7:
                    op = {"op": "dfs", "node": None, "stack": rng.choice([1, 2, 3]), "size": None}
                else:
                    op = {"op": "expand_one", "node": w.space_of(rng.choice(w.node_ids()))}
                out = w.apply(op)
                if out["cls"] == "budget_exceeded":
                    return None
                P.append(op)
            p = dict(p)
            p["prefix"] = 0
        for _ in range(p["prefix"]):
            if rng.random() < p["p_attr"]:
                op = attr_op(w, rng)
            else:
                op = plain_op(w, rng)
            out = w.apply(op)
            if out["cls"] == "budget_exceeded":
                return None
            P.append(op)
        nid = pick_node(w, rng)
        node = w.space_of(nid) if rng.random() < 0.35 else None
        if k == "bfs":
            O = {"op": "bfs", "node": node, "level": None, "size": None}
        elif k == "dfs":
            O = {"op": "dfs", "node": node, "stack": None, "size": None}
        elif k == "minimal":
            O = {"op": "minimal", "node": node, "size": None, "skip": False}
        elif k == "attr_seeds":
            O = {"op": "attr_seeds", "size": None}
        elif k == "to_target":
            O = {"op": "to_target", "target": gen_target(rng, w.ref), "size": None}
        elif k == "block":
            O = {"op": "block", "maa": rng.random() < 0.6, "size": None, "opt_src": rng.random() < 0.6, "exact": rng.random() < 0.2}
        elif k == "scc":
            O = {"op": "scc", "maa": rng.random() < 0.6}
        elif k == "seeds":
            O = {"op": "seeds", "node": w.space_of(nid), "compute": True, "fallback": rng.random() < 0.25}
        elif k == "candidates":
            O = {"op": "candidates", "node": w.space_of(nid), "compute": True, "greedy": rng.random() < 0.6, "sim": rng.random() < 0.6}
        else:
            O = {"op": "sets", "node": w.space_of(nid), "compute": True}
        O["target_op"] = True
        return P + [O]

    # ------------------------------------------------------------------- run
    def run(self, sc):
        res = new_result(sc)
        if sc.get("ops") is None:
            ops = self.gen_history(sc)
            if ops is None:
                w = self.make_world(sc)
                finish(res, w, sc, [])
                return res
        else:
            ops = sc["ops"]
        tgt = [i for i, o in enumerate(ops) if o.get("target_op")]
        if not tgt:
            w = self.make_world(sc)
            finish(res, w, sc, ops)
            return res
        P = [dict(o) for o in ops[: tgt[0]]]
        O = dict(ops[tgt[0]])
        focus = sc.get("focus")
        plain = all(o["op"] in ("expand_one", "bfs", "dfs", "minimal", "attr_seeds", "to_target", "block", "candidates", "seeds", "sets") and not o.get("opt_src") for o in P) and O["op"] in RESUMABLE
        st = {"subruns": 0, "early": 0, "raised": 0, "absorbed": 0, "kinds": {}}
        # ---- 1. dry run: never interrupted twin U
        U = self.fresh(sc, P)
        if U is None:
            w = self.make_world(sc)
            finish(res, w, sc, ops)
            return res
        from ..seams import SOLVER

        SOLVER.record_kinds = True
        outU = U.apply(O)
        kinds = list(SOLVER.kinds)
        SOLVER.record_kinds = False
        K = outU["points"]
        if outU["cls"] != "ok":
            if outU["cls"] == "budget_exceeded":
                res["budget_exceeded"].append({"op": O["op"]})
            elif outU["cls"] == "crash":
                res["anomalies"].append({"step": len(P) + 1, "op": O["op"], "cls": "crash", "type": outU.get("type"), "msg": outU.get("msg")})
            finish(res, U, sc, ops)
            res["stats"]["subruns"] = 0
            return res
        F = None
        if plain:
            tw = World(sc["net"], None, None, None, budget=True)
            o = tw.apply({"op": "bfs", "node": None, "level": None, "size": None})
            if o["cls"] == "ok" and o["value"] is True:
                F = D.structure(tw)
        vio = self.valid(U, F, len(P) + 1, "dry_run")
        if not vio and O["op"] in RESUMABLE and outU["value"] is not True:
            vio = [viol(self.ID, "unlimited_expansion_incomplete", len(P) + 1, {"op": O, "value": outU["value"]}, O["op"])]
        if not vio and O["op"] in RESUMABLE:
            vio = self.contract(U, O, True, len(P) + 1)
        SU = D.structure(U)
        attU = self.attractors_of(U, O, outU)
        final_size = len(U.sd)
        depth = U.sd.depth()
        # ---- enumeration
        attempts = []
        if O["op"] in RESUMABLE + ("block",):
            for L in range(1, final_size + 2):
                attempts.append(("size", L))
        if O["op"] == "bfs":
            for L in range(0, depth + 2):
                attempts.append(("level", L))
        if O["op"] == "dfs":
            for L in range(0, depth + 2):
                attempts.append(("stack", L))
        ks = list(range(1, K + 1))
        cap = 6 if sc["params"].get("light") else 64
        if len(ks) > cap:
            r = sub_rng(sc["ops_seed"], "fault-sample")
            ks = sorted(r.sample(ks, cap))
        for k in ks:
            attempts.append(("solver", k))
        if O["op"] in RESUMABLE + ("block", "scc"):
            for m in (1, 2, 3):
                attempts.append(("max_motifs", m))
        if O["op"] in QUERIES:
            cnt = len(outU["value"]) if O["op"] != "sets" else len(outU["value"])
            for m in sorted(set([0, 1, 2, cnt, cnt + 1])):
                attempts.append(("cand_limit", m))
        if len(attempts) > MAX_SUBRUNS:
            r = sub_rng(sc["ops_seed"], "attempt-sample")
            attempts = [attempts[i] for i in sorted(r.sample(range(len(attempts)), MAX_SUBRUNS))]
        if focus is not None:
            attempts = [a for a in attempts if list(a) == list(focus)]
        last = U
        for kind, val in attempts:
            if vio:
                break
            st["subruns"] += 1
            st["kinds"][kind] = st["kinds"].get(kind, 0) + 1
            v, A = self.attempt(sc, P, O, kind, val, SU, attU, F, st, kinds)
            if A is not None:
                last = A
                res["stats_extra_faults"] = res.get("stats_extra_faults", {})
                for fk, c in A.fault_counts.items():
                    res["stats_extra_faults"][fk] = res["stats_extra_faults"].get(fk, 0) + c
            if v:
                for x in v:
                    x["detail"]["attempt"] = [kind, val]
                vio = v
                sc = dict(sc)
                sc["focus"] = [kind, val]
        res["violations"] = vio
        finish(res, last, sc, ops)
        res["trace"]["focus"] = sc.get("focus")
        extra = res.pop("stats_extra_faults", {})
        res["stats"]["faults"] = extra
        res["stats"]["subruns"] = st["subruns"]
        res["stats"]["early_stops"] = st["early"]
        res["stats"]["raised"] = st["raised"]
        res["stats"]["absorbed"] = st["absorbed"]
        res["stats"]["attempt_kinds"] = st["kinds"]
        res["stats"]["fault_points"] = K
        res["stats"]["op_kinds"] = [f'{o["op"]}' for o in ops] + [f"subruns={st['subruns']}"]
        res["nontrivial"] = st["subruns"] >= 3 and (st["early"] + st["raised"] + st["absorbed"]) >= 1
        res["case_key"] = D.digest([res["log_digest"], ops, st["subruns"]])
        return res

    def attempt(self, sc, P, O, kind, val, SU, attU, F, st, kinds):
        step = len(P) + 1
        A = self.fresh(sc, P)
        if A is None:
            return [], None
        o1 = dict(O)
        site = f'{O["op"]}/{kind}'
        knob = None
        if kind == "size":
            o1["size"] = val
        elif kind == "level":
            o1["level"] = val
        elif kind == "stack":
            o1["stack"] = val
        elif kind == "solver":
            o1["fail_at"] = val
            o1["fail_exc"] = sc["params"].get("fail_exc", "runtime")
            site = f'{O["op"]}/solver:{kinds[val - 1] if val - 1 < len(kinds) else "?"}'
        elif kind == "max_motifs":
            knob = ("max_motifs_per_node", val)
        elif kind == "cand_limit":
            knob = ("attractor_candidates_limit", val)
        if knob:
            A.apply({"op": "set_knob", "name": knob[0], "value": knob[1]})
        out = A.apply(o1)
        if out["cls"] == "budget_exceeded":
            return [], A
        if out["cls"] in ("crash", "key_error"):
            return [viol(self.ID, "unexpected_exception", step, {"op": o1, "type": out.get("type"), "msg": out.get("msg")}, site)], A
        if out["cls"] in ("injected_failure", "limit_error"):
            st["raised"] += 1
        elif kind == "solver" and out["fired"]:
            st["absorbed"] += 1
        # --- return value contracts
        if out["cls"] == "ok" and O["op"] in RESUMABLE + ("block",):
            if out["value"] is False:
                st["early"] += 1
                if kind == "size" and not A.stubs():
                    return [viol(self.ID, "false_without_unexpanded_nodes", step, {"op": o1, "nodes": len(A.sd)}, site)], A
            elif out["value"] is True and O["op"] in RESUMABLE:
                v = self.contract(A, o1, False, step)
                if v:
                    return v, A
        # --- post-state validity
        v = self.valid(A, F, step, site)
        if v:
            return v, A
        # --- resume with relaxed limits
        if knob:
            A.apply({"op": "set_knob", "name": knob[0], "value": DEFAULT_CONFIG[knob[0]]})
        if O["op"] in RESUMABLE + QUERIES:
            o2 = {k: v for k, v in O.items() if k not in ("fail_at", "fail_exc")}
            out2 = A.apply(o2)
            if out2["cls"] == "budget_exceeded":
                return [], A
            if out2["cls"] != "ok":
                return [viol(self.ID, "resume_raised", step, {"op": o2, "cls": out2["cls"], "type": out2.get("type"), "msg": out2.get("msg"), "after": out["cls"]}, site)], A
            if O["op"] in RESUMABLE:
                if out2["value"] is not True:
                    return [viol(self.ID, "resume_incomplete", step, {"op": o2, "value": out2["value"]}, site)], A
                SA = D.structure(A)
                if SA != SU:
                    only_a = [k for k in SA if k not in SU]
                    only_u = [k for k in SU if k not in SA]
                    diff = [k for k in SA if k in SU and SA[k] != SU[k]]
                    return [viol(self.ID, "resume_differs_from_uninterrupted", step, {"only_in_resumed": only_a[:4], "only_in_uninterrupted": only_u[:4], "differing_nodes": diff[:4], "sizes": [len(SA), len(SU)]}, site)], A
            else:
                attA = self.attractors_of(A, o2, out2)
                if attA != attU:
                    return [viol(self.ID, "resumed_query_differs_from_uninterrupted", step, {"resumed": sorted(map(str, attA)), "uninterrupted": sorted(map(str, attU)), "first_outcome": out["cls"]}, site)], A
            v = self.valid(A, F, step, site + "/resumed")
            if v:
                return v, A
        return [], A

    def attractors_of(self, w, O, out):
        if O["op"] not in QUERIES or out["cls"] != "ok":
            return None
        ref = w.ref
        if O["op"] == "sets":
            return set(tuple(s) for s in out["value"])
        if O["op"] == "candidates":
            # candidates are a cover, not a bijection: compare the attractors hit inside own(node)
            nid = w.node_of(O.get("node"))
            own = set(ref.own(w.node_mv(nid), w.succ_mvs(nid)))
            hit = set()
            for c in out["value"]:
                s = ref.state2int({k: v for k, v in c})
                k = ref.attractor_index_of(s) if s is not None else None
                if k in own:
                    hit.add(k)
            return hit
        res = set()
        for c in out["value"]:
            s = ref.state2int({k: v for k, v in c})
            k = ref.attractor_index_of(s) if s is not None else None
            res.add(k if k is not None else ("not-in-attractor", str(c)))
        return res

    # -------------------------------------------------------------- validity
    def valid(self, w, F, step, site):
        sd = w.sd
        ref = w.ref
        seen = set()
        traps = None
        mins = set(ref.minimal_traps())
        for i in w.node_ids():
            d = sd.node_data(i)
            mv = w.node_mv(i)
            sp = w.space_of(i)
            if not d["expanded"] and sd.dag.out_degree(i) > 0:
                return [viol(self.ID, "unexpanded_node_has_successors", step, {"node": sp}, site)]
            if mv in seen:
                return [viol(self.ID, "duplicate_space", step, {"node": sp}, site)]
            seen.add(mv)
            if not ref.is_trap(mv) or ref.percolate(mv) != mv:
                return [viol(self.ID, "node_not_percolated_trap_space", step, {"node": sp}, site)]
            if d["expanded"] and sd.dag.out_degree(i) == 0 and mv not in mins:
                return [viol(self.ID, "expanded_without_complete_successors", step, {"node": sp, "why": "expanded leaf is not a minimal trap space"}, site)]
        if F is not None:
            cur = D.structure(w)
            for spk, recs in cur.items():
                exp, skipped, succ = recs[0]
                if exp and spk in F and succ != F[spk][0][2]:
                    return [viol(self.ID, "expanded_without_complete_successors", step, {"node": spk, "have": len(succ), "full": len(F[spk][0][2])}, site)]
        for i in w.node_ids():
            v, _seen = _c14.check_node(w, i, step, site)
            if v:
                x = v[0]
                x["property"] = self.ID
                x["detail"]["underlying"] = x["invariant"]
                x["invariant"] = "incorrect_data_cached"
                return [x]
        return []

    def contract(self, w, O, unlimited, step):
        """An expansion that returned True has really completed its contract."""
        import networkx as nx

        sd = w.sd
        ref = w.ref
        k = O["op"]
        site = f"{k}/contract"
        start = w.node_of(O.get("node")) if O.get("node") is not None else 0
        if k in ("bfs", "dfs"):
            reach = {start} | set(nx.descendants(sd.dag, start))
            bad = [i for i in reach if not sd.node_data(i)["expanded"]]
            if bad:
                return [viol(self.ID, "true_but_contract_incomplete", step, {"op": O, "unexpanded_reachable": [w.space_of(i) for i in bad[:3]]}, site)]
        elif k == "minimal":
            smv = w.node_mv(start)
            reach = {start} | set(nx.descendants(sd.dag, start))
            have = set(w.node_mv(i) for i in reach if sd.node_is_minimal(i))
            for m in ref.minimal_traps():
                if ref.subspace(m, smv) and m not in have:
                    return [viol(self.ID, "true_but_contract_incomplete", step, {"op": O, "missing_minimal_trap": ref.mv2sp(m)}, site)]
        elif k == "attr_seeds":
            traps = ref.all_traps()
            for a in range(len(ref.attractors())):
                cont = [t for t in traps if ref.att_inside(a, t)]
                small = [t for t in cont if not any(u != t and ref.subspace(u, t) for u in cont)]
                ok = False
                for t in small:
                    nid = None
                    for i in w.node_ids():
                        if w.node_mv(i) == t:
                            nid = i
                    if nid is not None and sd.node_data(nid)["expanded"]:
                        ok = True
                if not ok:
                    return [viol(self.ID, "true_but_contract_incomplete", step, {"op": O, "attractor": sorted(ref.attractors()[a])[:6], "closest_trap": [ref.mv2sp(t) for t in small]}, site)]
        elif k == "to_target":
            try:
                tmv = ref.sp2mv(O["target"])
            except KeyError:
                return []
            reach = {0} | set(nx.descendants(sd.dag, 0))
            for i in reach:
                mv = w.node_mv(i)
                if ref.union(mv, tmv) is None:
                    continue
                if ref.subspace(mv, tmv) and mv != tmv:
                    continue
                if not sd.node_data(i)["expanded"]:
                    return [viol(self.ID, "true_but_contract_incomplete", step, {"op": O, "unexpanded_relevant": w.space_of(i)}, site)]
        return []

    def evidence_extra(self, results):
        out = {"subruns_enumerated": 0, "attempt_kinds": {}, "early_stops": 0, "errors_raised": 0, "solver_failures_absorbed": 0, "fault_points_enumerated_max": 0}
        for r in results:
            s = r.get("stats") or {}
            out["subruns_enumerated"] += s.get("subruns", 0)
            out["early_stops"] += s.get("early_stops", 0)
            out["errors_raised"] += s.get("raised", 0)
            out["solver_failures_absorbed"] += s.get("absorbed", 0)
            out["fault_points_enumerated_max"] = max(out["fault_points_enumerated_max"], s.get("fault_points", 0))
            for k, c in (s.get("attempt_kinds") or {}).items():
                out["attempt_kinds"][k] = out["attempt_kinds"].get(k, 0) + c
        return out


MACHINE = C15()
