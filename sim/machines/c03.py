"""C03 — every complete expansion strategy finds exactly the minimal trap spaces
(DESIGN.md §4 C03)."""

from __future__ import annotations

from ..machine import Machine, cache_op, plain_op, rand_limit, viol

FROM_PARTIAL = ["bfs", "dfs", "minimal", "attr_seeds"]
FRESH_ONLY = ["block", "scc"]


class C03(Machine):
    ID = "C03"
    FAMILY_WEIGHTS = {"sparse": 3, "dense": 1, "canal": 4, "modular": 4, "maa": 1, "cascade": 3, "degenerate": 1, "inputs_mix": 2}
    NMAX = {"quick": 6, "thorough": 8}

    def gen_params(self, sc, rng):
        mode = rng.choice(["fresh", "prefix", "skip"])
        p = {"mode": mode}
        if mode == "fresh":
            p["strategy"] = rng.choice(FROM_PARTIAL + FRESH_ONLY)
            p["prefix"] = 0
        elif mode == "prefix":
            p["strategy"] = rng.choice(FROM_PARTIAL)
            p["prefix"] = rng.randint(1, 5)
        else:
            p["strategy"] = rng.choice(FROM_PARTIAL + ["block"])
            p["prefix"] = rng.choice([0, 0, 1, 2])
            p["completion"] = rng.choice(["skip_remaining", "skip_each", "minimal_skip"])
        p["opts"] = {
            "opt_src": rng.random() < 0.5,
            "maa": rng.random() < 0.5,
            "exact": rng.random() < 0.2,
            "skip_ignored": rng.random() < 0.4,
        }
        p["p_cache"] = rng.choice([0.0, 0.2])
        sc["params"] = p
        if rng.random() < 0.3:
            sc["reorder_seed"] = rng.randrange(1 << 30)

    def setup(self, world, sc):
        return {"params": sc["params"], "phase": "prefix", "n_prefix": 0, "claimed": False, "queue": None}

    def strategy_op(self, world, p, rng, limited):
        s = p["strategy"]
        o = p["opts"]
        size = None
        if limited:
            size = rng.choice([1, 2, 3, 4, 5, 6])
        # a level / stack limit may also be given: if the call still reports completion
        # (True) the diagram must be complete
        if s == "bfs":
            return {"op": "bfs", "node": None, "level": rng.choice([None, None, None, 0, 1, 2, 3]), "size": size}
        if s == "dfs":
            return {"op": "dfs", "node": None, "stack": rng.choice([None, None, None, 0, 1, 2, 3]), "size": size}
        if s == "minimal":
            return {"op": "minimal", "node": None, "size": size, "skip": o["skip_ignored"]}
        if s == "attr_seeds":
            return {"op": "attr_seeds", "size": size}
        if s == "block":
            return {"op": "block", "maa": o["maa"], "size": size, "opt_src": o["opt_src"], "exact": o["exact"]}
        return {"op": "scc", "maa": o["maa"]}

    def choose(self, world, st, rng, step):
        p = st["params"]
        ph = st["phase"]
        if ph == "prefix":
            if st["n_prefix"] < p["prefix"]:
                st["n_prefix"] += 1
                if rng.random() < p["p_cache"]:
                    return cache_op(world, rng)
                op = plain_op(world, rng)
                if op["op"] == "block" and p["strategy"] in FRESH_ONLY:
                    op = {"op": "expand_one", "node": world.space_of(0)}
                return op
            st["phase"] = "strategy"
            op = self.strategy_op(world, p, rng, limited=(p["mode"] == "skip"))
            op["strategy"] = True
            return op
        if ph == "complete_skip":
            c = p["completion"]
            if c == "skip_remaining":
                st["phase"] = "done"
                return {"op": "skip_remaining", "completion": True}
            if c == "minimal_skip":
                if st["queue"] is None:
                    st["queue"] = 1
                    return {"op": "minimal", "node": None, "size": None, "skip": True}
                st["phase"] = "done"
                return {"op": "skip_remaining", "completion": True}
            # skip_each: skip_to_minimal on every stub in a seeded order
            stubs = world.stubs()
            if not stubs:
                st["phase"] = "done"
                return {"op": "noop", "completion": True}
            return {"op": "skip_to_minimal", "node": world.space_of(rng.choice(stubs))}
        return None

    def check_step(self, world, st, op, out, step):
        p = st["params"]
        site = p["strategy"] if p["mode"] != "skip" else f'{p["strategy"]}+{p["completion"]}'
        if out["cls"] in ("crash", "limit_error", "key_error"):
            return [viol(self.ID, "op_raised", step, {"op": op, "cls": out["cls"], "type": out.get("type"), "msg": out.get("msg")}, site)]
        if out["cls"] != "ok":
            return []
        if op.get("strategy"):
            if p["mode"] == "skip":
                st["phase"] = "complete_skip"
                return []
            st["phase"] = "done"
            if out["value"] is True:
                st["claimed"] = True
                return self.check_minimal(world, step, site)
            return []
        if op.get("completion"):
            st["claimed"] = True
            return self.check_minimal(world, step, site)
        return []

    def check_minimal(self, world, step, site):
        ref = world.ref
        sd = world.sd
        want = sorted(ref.minimal_traps())
        ids = list(sd.minimal_trap_spaces())
        have = sorted(world.node_mv(i) for i in ids)
        if have != want:
            missing = [ref.mv2sp(m) for m in want if m not in have]
            spurious = [ref.mv2sp(m) for m in have if m not in want]
            dup = len(have) != len(set(have))
            inv = "minimal_trap_missing" if missing else ("minimal_trap_spurious" if spurious else "minimal_trap_duplicated")
            return [viol(self.ID, inv, step, {"missing": missing, "spurious": spurious, "duplicated": dup}, site)]
        for i in world.node_ids():
            is_min = sd.node_is_minimal(i)
            if is_min != (world.node_mv(i) in want and bool(sd.node_data(i)["expanded"])):
                return [viol(self.ID, "node_is_minimal_disagrees", step, {"node": world.space_of(i), "node_is_minimal": is_min}, site)]
        return []

    def classify(self, res, world, st):
        res["nontrivial"] = bool(st.get("claimed")) and len(world.ref.minimal_traps()) >= 2
        res["case_key"] = res["log_digest"]
        res["stats"]["claimed"] = bool(st.get("claimed"))


MACHINE = C03()
