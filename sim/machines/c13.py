"""C13 — every operation terminates within bounded work (bounded liveness;
DESIGN.md §4 C13).  Simulated time = loop back-edges + calls executed in biobalm
code; an op that exceeds B(n, |SD|, cfg) is a violation."""

from __future__ import annotations

from ..machine import Machine, full_op, viol
from ..netgen import gen_knobs


class C13(Machine):
    ID = "C13"
    FAMILY_WEIGHTS = {"sparse": 4, "dense": 2, "canal": 2, "modular": 2, "maa": 2, "cascade": 2, "degenerate": 1, "inputs_mix": 2}
    NMAX = {"quick": 6, "thorough": 8}
    ASSUMPTIONS = [
        "work budget B = 1.5e6 + 500*n*2^n*(|SD|+1) + 50*n^2*(minimum_simulation_budget+1024) back-edges/calls; a livelock exceeds any bound, legitimate ops observed stay >= 6x below it",
        "time spent inside C extensions (clingo, AEON) is not counted; a hang there is only caught by the wall guard and reported as a harness error",
    ]

    def gen_params(self, sc, rng):
        sc["params"] = {"len": rng.randint(2, 10), "p_fault": rng.choice([0.0, 0.0, 0.1, 0.25])}
        if rng.random() < 0.04:
            sc["params"]["mode"] = "sanitize"
            return
        if rng.random() < 0.5:
            sc["config"] = gen_knobs(rng, p=0.4)
        if rng.random() < 0.4:
            sc["walk_seed"] = rng.randrange(1 << 30)
        if rng.random() < 0.2:
            sc["reorder_seed"] = rng.randrange(1 << 30)

    def setup(self, world, sc):
        return {"params": sc["params"], "max_ratio": 0.0}

    # name sanitisation is a public, documented preparation step (petri_net_translation.
    # sanitize_network_names); it contains a retry loop whose termination depends on the names
    CLASH_POOLS = [["g[", "g]", "g{", "g}"], ["_g_", "g_", "g{", "g("], ["x_", "x[", "_x_", "x]"], ["a.b", "a b", "a-b", "a_b", "_a_b"]]

    def sanitize_scenario(self, sc):
        import random

        from ..machine import finish, new_result
        from ..ops import World
        from ..seams import CLOCK, WorkBudgetExceeded
        from .. import seams

        res = new_result(sc)
        rng = random.Random(sc["run_seed"])
        pool = list(rng.choice(self.CLASH_POOLS))
        rng.shuffle(pool)
        names = pool[: rng.randint(2, len(pool))] + (["plain"] if rng.random() < 0.5 else [])
        seams.install()
        from biodivine_aeon import BooleanNetwork
        from biobalm.petri_net_translation import sanitize_network_names

        vio = []
        CLOCK.start(200_000)
        try:
            try:
                bn = BooleanNetwork(names)
            except Exception:  # noqa: BLE001  AEON rejects the names: nothing to test
                bn = None
            if bn is not None:
                try:
                    out = sanitize_network_names(bn)
                    got = out.variable_names()
                    import re as _re

                    if len(set(got)) != len(names) or not all(_re.match("^[a-zA-Z0-9_]+$", g) for g in got):
                        vio.append(viol(self.ID, "sanitize_names_not_distinct_and_safe", 1, {"names": names, "sanitized": got}, "sanitize"))
                except WorkBudgetExceeded as e:
                    vio.append(viol(self.ID, "work_budget_exceeded", 1, {"op": {"op": "sanitize", "names": names}, "where": e.where}, "sanitize"))
                except Exception:  # noqa: BLE001  a clean refusal is a terminating outcome
                    pass
        finally:
            work = CLOCK.stop()
        w = World(sc["net"], None, None, None, budget=True)
        res["violations"] = vio
        finish(res, w, sc, [{"op": "sanitize", "names": names}])
        res["stats"]["op_kinds"] = ["sanitize:" + ("budget_exceeded" if vio else "ok")]
        res["stats"]["work"] = work
        res["nontrivial"] = True
        res["case_key"] = "sanitize/" + "|".join(names)
        return res

    def choose(self, world, st, rng, step):
        p = st["params"]
        if step >= p["len"]:
            return None
        op = full_op(world, rng)
        if rng.random() < p["p_fault"]:
            op["fail_at"] = rng.randint(1, 12)
            if rng.random() < 0.3:
                op["fail_exc"] = "memory"
        return op

    def check_step(self, world, st, op, out, step):
        return []

    def on_budget(self, world, st, op, out, step):
        return [viol(self.ID, "work_budget_exceeded", step, {"op": op, "where": out.get("where"), "work": out.get("work"), "nodes": len(world.sd), "n": world.ref.n}, site=op["op"])]

    def run(self, sc):
        if sc.get("params", {}).get("mode") == "sanitize":
            return self.sanitize_scenario(sc)
        res = super().run(sc)
        # construction overrun is also a C13 violation
        if res.get("construct_cls") == "budget_exceeded" and not res["violations"]:
            res["violations"] = [viol(self.ID, "work_budget_exceeded", 0, {"op": {"op": "construct"}, "where": res["budget_exceeded"][0].get("where")}, site="construct")]
        return res

    def classify(self, res, world, st):
        kinds = res["stats"]["op_kinds"][1:]
        res["nontrivial"] = len(kinds) >= 2
        res["case_key"] = res["log_digest"]
        from ..ops import work_budget

        # headroom: largest work/budget ratio of any op in this run
        mx = 0.0
        for rec in world.log:
            w = rec["out"].get("work", 0)
            b = work_budget(world.ref.n, max(1, len(world.sd) if world.sd is not None else 1), world.sd.config if world.sd is not None else {})
            mx = max(mx, w / b)
        res["stats"]["max_work_ratio"] = round(mx, 4)

    def evidence_extra(self, results):
        mx = 0.0
        big = []
        for r in results:
            x = (r.get("stats") or {}).get("max_work_ratio", 0.0) or 0.0
            if not r.get("budget_exceeded"):
                mx = max(mx, x)
        return {"max_work_over_budget_ratio_of_terminating_ops": mx}


MACHINE = C13()
