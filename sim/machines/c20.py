"""C20 — reported diagram metadata is accurate (DESIGN.md §4 C20)."""

from __future__ import annotations

from .. import dump as D
from ..machine import Machine, cache_op, structural_op, sub_rng, viol
from ..ops import World


def longest_paths(sd):
    """Longest path length from node 0 to every reachable node (DAG), by DFS memo on predecessors."""
    import networkx as nx

    dag = sd.dag
    reach = {0} | set(nx.descendants(dag, 0))
    order = [n for n in nx.topological_sort(dag) if n in reach]
    dist = {0: 0}
    for n in order:
        if n not in dist:
            continue
        for s in dag.successors(n):
            if dist.get(s, -1) < dist[n] + 1:
                dist[s] = dist[n] + 1
    return dist, reach


def node_edge_sets(world):
    sd = world.sd
    nodes = set()
    edges = set()
    for i in range(len(sd)):
        nodes.add(D._cs(sd.node_data(i)["space"]))
        for s in sd.dag.successors(i):
            edges.add((D._cs(sd.node_data(i)["space"]), D._cs(sd.node_data(s)["space"])))
    return nodes, edges


class C20(Machine):
    ID = "C20"
    FAMILY_WEIGHTS = {"sparse": 2, "dense": 1, "canal": 5, "modular": 5, "maa": 1, "cascade": 6, "degenerate": 1, "inputs_mix": 2}
    FMTS = ("bnet", "aeon", "api")
    SHUFFLE_ORDER = True
    NMAX = {"quick": 6, "thorough": 8}

    def gen_params(self, sc, rng):
        mode = rng.choice(["history", "history", "subtree_first", "subtree_first", "summary"])
        sc["params"] = {"mode": mode, "len": rng.randint(1, 8), "other_len": rng.randint(0, 5), "other_seed": rng.randrange(1 << 30), "p_cache": 0.1}

    def setup(self, world, sc):
        p = sc["params"]
        st = {"params": p, "done_build": False, "depth_checks": 0, "multi_path_nodes": 0, "find_checks": 0, "sub_checks": 0, "summary_checked": 0}
        if p["mode"] in ("history", "subtree_first"):
            onet = sc["net"]
            if sub_rng(p["other_seed"], "variant").random() < 0.35:
                # the documented cross-network case: a different network over the same variables
                # plus one extra variable that never stabilises (x = !x) and regulates nothing,
                # inserted at a seeded position so that the variable indices shift; its diagram has
                # exactly the same node spaces and edges
                onet = self.padded_variant(sc["net"], sub_rng(p["other_seed"], "variant-pos"))
            other = World(onet, None, None, None, budget=True)
            rng = sub_rng(p["other_seed"], "other")
            for _ in range(p["other_len"]):
                out = other.apply(structural_op(other, rng))
                if out["cls"] == "budget_exceeded":
                    break
            st["other"] = other
        return st

    @staticmethod
    def padded_variant(net, rng):
        import copy

        n = len(net["funcs"])
        pos = rng.randint(0, n)
        extra = "aa_pad" if rng.random() < 0.5 else "zz_pad"
        if extra in net["names"]:
            return net
        names = net["names"][:pos] + [extra] + net["names"][pos:]
        shift = lambda r: r + 1 if r >= pos else r  # noqa: E731
        funcs = [[[shift(r) for r in regs], list(tt)] for regs, tt in net["funcs"]]
        funcs = funcs[:pos] + [[[pos], [1, 0]]] + funcs[pos:]
        out = copy.deepcopy(net)
        out["names"] = names
        out["funcs"] = funcs
        out["free"] = [shift(i) for i in net["free"]]
        out["order"] = list(range(n + 1))
        out["fmt"] = "bnet" if net["fmt"] == "api" else net["fmt"]
        return out

    def choose(self, world, st, rng, step):
        p = st["params"]
        if p["mode"] == "summary":
            if st["done_build"]:
                return None
            st["done_build"] = True
            return {"op": "build", "summary_check": True}
        if p["mode"] == "subtree_first":
            # expand whole sub-diagrams below randomly chosen stubs first: the ancestors are
            # expanded later, so longer paths to nodes that already have expanded descendants
            # keep being discovered (depth must propagate through shared descendants)
            stubs = world.stubs()
            if not stubs or step >= 12:
                return None
            if step == 0:
                return {"op": "expand_one", "node": world.space_of(0)}
            nid = rng.choice(stubs)
            if rng.random() < 0.5:
                return {"op": "dfs", "node": world.space_of(nid), "stack": None, "size": None}
            return {"op": "bfs", "node": world.space_of(nid), "level": rng.choice([None, None, 0, 1]), "size": None}
        if step >= p["len"]:
            return None
        if rng.random() < p["p_cache"]:
            return cache_op(world, rng)
        return structural_op(world, rng)

    def check_step(self, world, st, op, out, step):
        if out["cls"] == "budget_exceeded":
            return []
        site = op["op"]
        sd = world.sd
        ref = world.ref
        # ids contiguous from the root at 0; len counts them
        ids = sorted(sd.dag.nodes())
        if ids != list(range(len(ids))) or len(sd) != len(ids) or list(sd.node_ids()) != ids or sd.root() != 0:
            return [viol(self.ID, "ids_not_contiguous", step, {"ids": ids, "len": len(sd)}, site)]
        # depth
        dist, reach = longest_paths(sd)
        for n in sorted(reach):
            st["depth_checks"] += 1
            if sd.dag.in_degree(n) > 1:
                st["multi_path_nodes"] += 1
            have = sd.node_data(n)["depth"]
            if have != dist[n]:
                return [viol(self.ID, "depth_not_longest_path", step, {"node": world.space_of(n), "depth": have, "longest_path": dist[n]}, site)]
        if len(reach) == len(ids):
            if sd.depth() != max(dist.values()):
                return [viol(self.ID, "diagram_depth_wrong", step, {"depth": sd.depth(), "max": max(dist.values())}, site)]
        elif sd.depth() != max(sd.node_data(i)["depth"] for i in ids):
            return [viol(self.ID, "diagram_depth_not_max_node_depth", step, {"depth": sd.depth()}, site)]
        # find_node: exact matches and near misses
        spaces = {}
        for i in ids:
            spaces[D._cs(sd.node_data(i)["space"])] = i
        for i in ids:
            sp = dict(sd.node_data(i)["space"])
            st["find_checks"] += 1
            got = sd.find_node(dict(sp))
            if got != i:
                return [viol(self.ID, "find_node_misses_existing", step, {"space": sp, "got": got, "want": i}, site)]
            # near misses, deterministic: drop first key, add first free var, flip first key, unknown variable
            keys = sorted(sp)
            cands = []
            if keys:
                a = dict(sp)
                del a[keys[0]]
                cands.append(a)
                b = dict(sp)
                b[keys[-1]] = 1 - b[keys[-1]]
                cands.append(b)
            free = [nm for nm in ref.names if nm not in sp]
            if free:
                c = dict(sp)
                c[sorted(free)[0]] = 1
                cands.append(c)
            u = dict(sp)
            u["no_such_variable"] = 0
            cands.append(u)
            for q in cands:
                want = spaces.get(D._cs(q)) if "no_such_variable" not in q else None
                try:
                    got = sd.find_node(dict(q))
                except Exception as e:  # noqa: BLE001
                    return [viol(self.ID, "find_node_raised", step, {"query": q, "type": type(e).__name__}, site)]
                if got != want:
                    return [viol(self.ID, "find_node_wrong_for_near_miss", step, {"query": q, "got": got, "want": want}, site)]
        # is_subgraph / is_isomorphic against an independent diagram of the same network
        other = st.get("other")
        if other is not None:
            n1, e1 = node_edge_sets(world)
            n2, e2 = node_edge_sets(other)
            st["sub_checks"] += 1
            want12 = n1 <= n2 and e1 <= e2
            want21 = n2 <= n1 and e2 <= e1
            try:
                got12 = sd.is_subgraph(other.sd)
                got21 = other.sd.is_subgraph(sd)
                iso = sd.is_isomorphic(other.sd)
            except Exception as e:  # noqa: BLE001
                return [viol(self.ID, "is_subgraph_raised", step, {"type": type(e).__name__, "msg": str(e)[:200]}, site)]
            if got12 != want12 or got21 != want21:
                return [viol(self.ID, "is_subgraph_wrong", step, {"got": [got12, got21], "want": [want12, want21], "sizes": [len(n1), len(n2)]}, site)]
            if iso != (want12 and want21):
                return [viol(self.ID, "is_isomorphic_wrong", step, {"got": iso, "want": want12 and want21}, site)]
        if op.get("summary_check") and out["cls"] == "ok":
            return self.check_summary(world, st, step)
        return []

    def check_summary(self, world, st, step):
        sd = world.sd
        ref = world.ref
        text = sd.summary()
        st["summary_checked"] += 1
        lines = text.split("\n")
        # the order in which summary() itself says it prints the states
        heads = [ln for ln in lines if ln.startswith("State order: ")]
        if len(heads) != 1 or sorted(heads[0][len("State order: "):].split(", ")) != sorted(ref.names):
            return [viol(self.ID, "summary_state_order_line_wrong", step, {"lines": heads, "names": sorted(ref.names)}, "summary")]
        order = heads[0][len("State order: "):].split(", ")
        want_head = f"Succession Diagram with {len(sd)} nodes and depth {sd.depth()}."
        if lines[0] != want_head:
            return [viol(self.ID, "summary_header_wrong", step, {"line": lines[0], "want": want_head}, "summary")]
        seen = {}
        label = None
        space = None
        for ln in lines[1:]:
            if ln.startswith("minimal trap space "):
                label, space = "min", ln[len("minimal trap space "):]
            elif ln.startswith("motif avoidance in "):
                label, space = "maa", ln[len("motif avoidance in "):]
            elif ln.startswith(".") and label is not None:
                bits = ln.lstrip(".")
                if len(bits) != len(order) or any(ch not in "01" for ch in bits):
                    return [viol(self.ID, "summary_state_malformed", step, {"line": ln}, "summary")]
                s = 0
                for nm, ch in zip(order, bits):
                    if ch == "1":
                        s |= 1 << ref.idx[nm]
                k = ref.attractor_index_of(s)
                if k is None:
                    return [viol(self.ID, "summary_state_not_in_attractor", step, {"state": bits}, "summary")]
                if k in seen:
                    return [viol(self.ID, "summary_attractor_listed_twice", step, {"state": bits}, "summary")]
                # the header space must contain the attractor
                sp = {nm: int(ch) for nm, ch in zip(order, space) if ch in "01"}
                if not ref.att_inside(k, ref.sp2mv(sp)):
                    return [viol(self.ID, "summary_attractor_not_in_listed_space", step, {"state": bits, "space": space}, "summary")]
                seen[k] = label
        mins = ref.minimal_traps()
        for k in range(len(ref.attractors())):
            if k not in seen:
                return [viol(self.ID, "summary_attractor_missing", step, {"attractor": sorted(ref.attractors()[k])[:8], "summary": text[-600:]}, "summary")]
            in_min = any(ref.att_inside(k, m) for m in mins)
            if (seen[k] == "min") != in_min:
                return [viol(self.ID, "summary_label_wrong", step, {"attractor": sorted(ref.attractors()[k])[:8], "label": seen[k], "in_minimal_trap": in_min}, "summary")]
        return []

    def classify(self, res, world, st):
        if st["params"]["mode"] == "summary":
            res["nontrivial"] = st.get("summary_checked", 0) > 0 and len(world.ref.attractors()) >= 2
        else:
            res["nontrivial"] = len(world.sd) >= 4 and st.get("depth_checks", 0) > 0
        res["case_key"] = res["log_digest"]
        for k in ("depth_checks", "multi_path_nodes", "find_checks", "sub_checks", "summary_checked"):
            res["stats"][k] = st.get(k, 0)

    def evidence_extra(self, results):
        out = {}
        for k in ("depth_checks", "multi_path_nodes", "find_checks", "sub_checks", "summary_checked"):
            out[k] = sum((r.get("stats") or {}).get(k, 0) for r in results)
        return out


MACHINE = C20()
