"""C19 — results are reproducible (DESIGN.md §4 C19).

A scenario (network + config + history from the full alphabet) is executed
 (r) once as the reference, generating the history adaptively;
 (a) a second time in the same process;
 (c) in the same process with its ops interleaved with ops of unrelated diagrams
     (other networks / configs incl. debug=True, the symbolic fallback, injected
     solver failures and resource-limit errors);
 (d) after a long unrelated prefix;
 (e) block-first scenarios: the unrelated prefix and then the scenario in a brand-new
     interpreter (a per-process memo is otherwise filled by the reference itself);
 (b) under other PYTHONHASHSEED values (screened in long-lived child interpreters,
     confirmed in a brand-new one).
The scenario's own event log (op outcomes, canonical results, dumps with ids) must
be identical in all executions.  Walk mode and model reordering are off: the
shipped seed 123 is part of what is being reproduced."""

from __future__ import annotations

import json
import os
import subprocess
import sys

from .. import dump as D
from ..machine import Machine, finish, full_op, new_result, sub_rng, viol
from ..netgen import gen_knobs, gen_network
from ..ops import World

ROOT = os.path.dirname(os.path.dirname(os.path.dirname(os.path.abspath(__file__))))
HASH_SEEDS = ["1", "4242", "random"]
DEFAULT_MAX_MOTIFS = 100_000


class HashChild:
    """A long-lived interpreter started under another PYTHONHASHSEED that executes scenarios
    sent to it one per line (child side: exec_server_main).  Used as a *screen*: a difference
    seen here is confirmed in a truly fresh interpreter before it is reported, so that the
    child's own history can never be the cause of an alarm."""

    MAX_USES = 150
    pool = {}

    def __init__(self, hs):
        env = dict(os.environ)
        env["PYTHONHASHSEED"] = hs
        self.hs = hs
        self.uses = 0
        self.p = subprocess.Popen([sys.executable, os.path.join(ROOT, "check"), "C19", "--exec-server"], stdin=subprocess.PIPE, stdout=subprocess.PIPE, stderr=subprocess.DEVNULL, text=True, env=env, cwd=ROOT)

    @classmethod
    def get(cls, hs):
        c = cls.pool.get(hs)
        if c is not None and (c.p.poll() is not None or c.uses >= cls.MAX_USES):
            c.close()
            c = None
        if c is None:
            c = cls.pool[hs] = HashChild(hs)
        return c

    def close(self):
        try:
            self.p.stdin.close()
        except OSError:
            pass
        try:
            self.p.wait(timeout=5)
        except subprocess.TimeoutExpired:
            self.p.kill()
        HashChild.pool.pop(self.hs, None)

    def execute(self, payload, timeout=600):
        """Returns the event log or raises RuntimeError."""
        import select

        self.uses += 1
        try:
            self.p.stdin.write(payload.replace("\n", " ") + "\n")
            self.p.stdin.flush()
        except (OSError, ValueError) as e:
            self.close()
            raise RuntimeError(f"child pipe: {e}")
        fd = self.p.stdout
        import time as _t

        t_end = _t.monotonic() + timeout
        while True:
            left = t_end - _t.monotonic()
            if left <= 0:
                self.p.kill()
                self.close()
                raise RuntimeError("timed out")
            r, _, _ = select.select([fd], [], [], min(left, 5.0))
            if not r:
                if self.p.poll() is not None:
                    self.close()
                    raise RuntimeError("child died")
                continue
            line = fd.readline()
            if line == "":
                self.close()
                raise RuntimeError("child closed its output")
            if line.startswith("EXEC-LOG "):
                return json.loads(line[len("EXEC-LOG "):])


def canon_value(op, val):
    """Project an op result onto what the property promises to be reproducible."""
    k = op["op"]
    if k in ("candidates", "exp_candidates"):
        return None  # candidate lists are not promised (seeds are)
    if k == "seeds" and isinstance(val, list):
        return sorted(map(json.dumps, val))
    if k == "exp_seeds" and isinstance(val, dict):
        return {n: sorted(map(json.dumps, v)) for n, v in val.items()}
    if k == "control" and isinstance(val, list):
        return sorted(json.dumps(iv, sort_keys=True) for iv in val)
    if k == "successions" and isinstance(val, list):
        return sorted(map(json.dumps, val))
    if k == "successors" and isinstance(val, list):
        return sorted(val)
    return val


def canon_dump(world):
    d = D.dump(world, with_ids=True, attr=True)
    for n in d["nodes"]:
        a = n.get("attr", {})
        a.pop("candidates", None)
        if "seeds" in a:
            a["seeds"] = sorted(map(repr, a["seeds"]))
        if "sets" in a:
            a["sets"] = sorted(map(repr, a["sets"]))
    return d


def execute(sc, ops, other_plan=None):
    """Run the scenario's ops on a fresh world; other_plan[i] = list of (world index, op)
    to run on unrelated worlds before scenario op i.  Returns the event log."""
    w = World(sc["net"], sc.get("config"), None, None, budget=True)
    log = [["construct", w.log[0]["out"]["cls"], None, None]]
    if w.log[0]["out"]["cls"] != "ok":
        return log, w
    others = {}
    for i, op in enumerate(ops):
        for widx, net, cfg, oop in (other_plan or {}).get(i, []):
            ow = others.get(widx)
            if ow is None:
                ow = others[widx] = World(net, cfg, None, None, budget=True)
                if ow.log[0]["out"]["cls"] != "ok":
                    continue
            if ow.sd is not None:
                ow.apply(oop)
        out = w.apply(op)
        log.append([op["op"], out["cls"], D.digest(canon_value(op, out.get("value"))), D.digest(canon_dump(w)) if out["cls"] != "budget_exceeded" else None])
        if out["cls"] == "budget_exceeded":
            break
    return log, w


def first_diff(a, b):
    for i, (x, y) in enumerate(zip(a, b)):
        if x != y:
            what = "outcome" if x[1] != y[1] else ("value" if x[2] != y[2] else "dump")
            return i, what, x, y
    if len(a) != len(b):
        return min(len(a), len(b)), "length", None, None
    return None


class C19(Machine):
    ID = "C19"
    FAMILY_WEIGHTS = {"sparse": 3, "dense": 1, "canal": 2, "modular": 3, "maa": 2, "cascade": 2, "maa_cascade": 4, "degenerate": 1, "inputs_mix": 2}
    NMAX = {"quick": 6, "thorough": 7}
    FMTS = ("bnet", "aeon", "api")
    NONDETERMINISTIC_REPLAY = True

    def gen_scenario(self, run_seed, tier):
        rng = sub_rng(run_seed, "net")
        net = gen_network(rng, self.FAMILY_WEIGHTS, nmax=self.NMAX.get(tier, 6), fmts=self.FMTS, shuffle_order=True)
        prng = sub_rng(run_seed, "params")
        sc = {"property": self.ID, "run_seed": run_seed, "tier": tier, "net": net, "config": None, "walk_seed": None, "reorder_seed": None, "ops_seed": run_seed, "params": {"len": prng.randint(2, 9), "hash_seeds": (HASH_SEEDS[: 2 if tier == "quick" else 3] if prng.random() < (0.6 if tier == "quick" else 0.75) else []), "other_seed": prng.randrange(1 << 30)}}
        if prng.random() < 0.3:
            sc["config"] = gen_knobs(prng, p=0.3)
        if prng.random() < 0.08:
            # source-SCC scenario: independent feedback rings under random names, expanded by
            # the source-SCC strategy, executed several more times in this process (component
            # lists that come out of hash sets can differ from call to call)
            sc["params"]["mode"] = "scc_repeat"
            sc["config"] = None
            sc["params"]["hash_seeds"] = HASH_SEEDS[:1] if prng.random() < 0.3 else []
            sc["net"] = gen_network(sub_rng(run_seed, "net-rings"), {"rings": 1}, nmax=self.NMAX.get(tier, 6), fmts=self.FMTS, shuffle_order=True)
        elif prng.random() < 0.15:
            # dead-branch scenario: a motif-avoidant core gated by constants (every node's
            # restricted Petri net is a small part of the network's net), expanded, then the
            # seeds of every node, always compared under other hash seeds
            sc["params"]["mode"] = "deadpad"
            sc["config"] = None
            sc["params"]["hash_seeds"] = HASH_SEEDS[:2] + ["7"]
            sc["net"] = gen_network(sub_rng(run_seed, "net-deadpad"), {"maa_deadpad": 1}, nmax=self.NMAX.get(tier, 6), fmts=self.FMTS, shuffle_order=True)
        elif prng.random() < 0.2:
            # block-first scenario: the history starts with block expansion / build (which runs
            # motif-avoidance checks on sub-diagrams of blocks), and one of the unrelated worlds
            # is the same network under tight candidate limits expanded the same way
            sc["params"]["mode"] = "block_first"
            sc["config"] = None
            if prng.random() < 0.7:
                sc["net"] = gen_network(sub_rng(run_seed, "net-block"), {"maa_cascade": 2, "modular": 2, "cascade": 1}, nmax=self.NMAX.get(tier, 6), fmts=self.FMTS, shuffle_order=True)
        elif prng.random() < 0.55:
            # skip-seeds scenario: partial expansion, skipping, then the seeds of every node.
            # Skip nodes prune by intersections with other nodes: the part of attractor
            # detection whose outcome is most sensitive to incidental ordering.
            sc["params"]["mode"] = "skip_seeds"
            sc["params"]["expand"] = prng.randint(1, 4)
            if prng.random() < 0.6:
                sc["params"]["hash_seeds"] = []  # mostly in-process comparisons here: cheaper, more scenarios
            sc["config"] = None
            if prng.random() < 0.7:
                sc["net"] = gen_network(sub_rng(run_seed, "net-skip"), {"maa_cascade": 3, "maa": 1, "modular": 1}, nmax=self.NMAX.get(tier, 6), fmts=self.FMTS, shuffle_order=True)
        return sc

    def gen_ops(self, sc):
        rng = sub_rng(sc["ops_seed"], "ops")
        w = World(sc["net"], sc.get("config"), None, None, budget=True)
        ops = []
        if w.log[0]["out"]["cls"] != "ok":
            return ops
        if sc["params"].get("mode") == "skip_seeds":
            seq = [{"op": "expand_one", "node": w.space_of(0)}]
            w.apply(seq[0])
            for _ in range(sc["params"]["expand"]):
                stubs = w.stubs()
                if not stubs:
                    break
                op = {"op": "expand_one", "node": w.space_of(rng.choice(stubs))}
                w.apply(op)
                seq.append(op)
            op = {"op": "skip_remaining"}
            w.apply(op)
            seq.append(op)
            ids = list(w.node_ids())
            if rng.random() < 0.5:
                rng.shuffle(ids)
            for i in ids[:14]:
                seq.append({"op": "seeds", "node": w.space_of(i), "compute": True, "fallback": False})
            return seq
        if sc["params"].get("mode") == "scc_repeat":
            seq = [{"op": "scc", "maa": rng.random() < 0.6}, {"op": "exp_seeds"}]
            for op in seq:
                w.apply(op)
            return seq
        if sc["params"].get("mode") == "deadpad":
            seq = [rng.choice([{"op": "bfs", "node": None, "level": None, "size": None}, {"op": "build"}, {"op": "dfs", "node": None, "stack": None, "size": None}])]
            w.apply(seq[0])
            for i in list(w.node_ids())[:14]:
                seq.append({"op": "seeds", "node": w.space_of(i), "compute": True, "fallback": False})
            return seq
        if sc["params"].get("mode") == "block_first":
            op = rng.choice([{"op": "block", "maa": True, "size": None, "opt_src": rng.random() < 0.7, "exact": False}, {"op": "build"}])
            w.apply(op)
            ops.append(op)
            ops.append({"op": "exp_seeds"})
            w.apply(ops[-1])
        for _ in range(sc["params"]["len"]):
            op = full_op(w, rng, w=(0.42, 0.25, 0.08, 0.05, 0.12, 0.08))
            out = w.apply(op)
            ops.append(op)
            if out["cls"] == "budget_exceeded":
                break
        return ops

    def other_plan(self, sc, ops, mode):
        """Seeded plan of unrelated work.  Ops on the unrelated worlds are generated on
        scratch copies so that the plan is explicit before execution."""
        rng = sub_rng(sc["params"]["other_seed"], mode)
        nets = []
        for j in range(2):
            net = gen_network(rng, None, nmax=5)
            if j == 0 and (rng.random() < 0.5 or sc["params"].get("mode") == "block_first"):
                # the *same* network under another configuration: anything cached per network
                # text / module rather than per diagram would leak between the two
                net = sc["net"]
            cfg = gen_knobs(rng, p=0.4)
            if net is sc["net"]:
                for k in ("attractor_candidates_limit", "retained_set_optimization_threshold"):
                    if rng.random() < 0.7:
                        cfg[k] = rng.choice([0, 0, 1, 1, 2, 3])
                cfg["max_motifs_per_node"] = DEFAULT_MAX_MOTIFS
            cfg["debug"] = rng.random() < 0.5
            if rng.random() < 0.3:
                cfg["max_motifs_per_node"] = rng.choice([1, 2, 3])
            nets.append((net, cfg))
        scratch = [World(n, c, None, None, budget=True) for n, c in nets]
        plan = {}

        first_same = [True]

        def some(k):
            res = []
            for _ in range(k):
                j = rng.randrange(2)
                if first_same[0] and nets[0][0] is sc["net"]:
                    j = 0
                sw = scratch[j]
                if sw.sd is None or sw.log[0]["out"]["cls"] != "ok":
                    continue
                r = rng.random()
                if nets[j][0] is sc["net"] and (r < 0.5 or first_same[0]):
                    first_same[0] = False
                    oop = rng.choice([{"op": "block", "maa": True, "size": None, "opt_src": True, "exact": False}, {"op": "build"}, {"op": "scc", "maa": True}])
                    if rng.random() < 0.5:
                        # a solver failure inside the other diagram's block / SCC checks is absorbed
                        # there ("not clean"); it must not leak into this diagram's verdicts
                        oop["fail_at"] = rng.randint(1, 30)
                elif r < 0.2:
                    oop = {"op": "seeds", "node": sw.space_of(rng.choice(sw.node_ids())), "compute": True, "fallback": True, "fail_at": 1}
                else:
                    oop = full_op(sw, rng)
                    if rng.random() < 0.2:
                        oop["fail_at"] = rng.randint(1, 8)
                sw.apply(oop)
                res.append((j, nets[j][0], nets[j][1], oop))
            return res

        if mode == "prefix":
            plan[0] = some(rng.randint(8, 14))
        else:
            for i in range(len(ops)):
                if rng.random() < 0.7:
                    plan[i] = some(rng.randint(1, 3))
        return plan

    def run(self, sc):
        res = new_result(sc)
        ops = sc.get("ops") if sc.get("ops") is not None else self.gen_ops(sc)
        ref_log, w = execute(sc, ops)
        vio = []
        execs = 1
        # (a) again in the same process
        log_a, _ = execute(sc, ops)
        execs += 1
        d = first_diff(ref_log, log_a)
        if d:
            vio.append(viol(self.ID, "differs_on_second_build_in_same_process", d[0], {"what": d[1], "op": ops[d[0] - 1] if 0 < d[0] <= len(ops) else None, "first": d[2], "second": d[3]}, "same_process"))
        if not vio and sc["params"].get("mode") == "scc_repeat":
            for _ in range(5):
                log_a, _ = execute(sc, ops)
                execs += 1
                d = first_diff(ref_log, log_a)
                if d:
                    vio.append(viol(self.ID, "differs_on_second_build_in_same_process", d[0], {"what": d[1], "op": ops[d[0] - 1] if 0 < d[0] <= len(ops) else None, "first": d[2], "second": d[3]}, "same_process"))
                    break
        # (c) interleaved with unrelated diagrams, (d) after an unrelated prefix
        other_ops = 0
        for mode in () if sc["params"].get("mode") in ("deadpad", "scc_repeat") else ("interleave", "prefix"):
            if vio:
                break
            plan = self.other_plan(sc, ops, mode)
            other_ops += sum(len(v) for v in plan.values())
            log_c, _ = execute(sc, ops, plan)
            execs += 1
            d = first_diff(ref_log, log_c)
            if d:
                vio.append(viol(self.ID, "depends_on_unrelated_diagrams", d[0], {"what": d[1], "mode": mode, "op": ops[d[0] - 1] if 0 < d[0] <= len(ops) else None, "alone": d[2], "with_others": d[3]}, mode))
        # (e) block-first scenarios: the unrelated prefix and then the scenario in a brand-new
        # interpreter.  In this process the reference execution came first, so anything the
        # library remembers per process (rather than per diagram) was already fixed by it; only
        # a process whose *first* contact with the network is the unrelated diagram can differ.
        prefix_fresh = 0
        if not vio and sc["params"].get("mode") == "block_first" and sub_rng(sc["params"]["other_seed"], "prefix-fresh").random() < 0.85:
            plan = self.other_plan(sc, ops, "prefix")
            flat = [[i, widx, net, cfg, oop] for i, items in plan.items() for (widx, net, cfg, oop) in items]
            payload_e = json.dumps({"scenario": {k: v for k, v in sc.items() if k != "ops"}, "ops": ops, "plan": flat}, default=D._default)
            try:
                p = subprocess.run([sys.executable, os.path.join(ROOT, "check"), "C19", "--exec-trace"], input=payload_e, capture_output=True, text=True, timeout=600, cwd=ROOT)
                line = [ln for ln in p.stdout.splitlines() if ln.startswith("EXEC-LOG ")]
            except subprocess.TimeoutExpired:
                line = None
            if not line:
                res["harness_error"] = "fresh interpreter (unrelated prefix) gave no log"
            else:
                execs += 1
                prefix_fresh = 1
                d = first_diff(json.loads(json.dumps(ref_log)), json.loads(line[0][len("EXEC-LOG "):]))
                if d:
                    vio.append(viol(self.ID, "depends_on_unrelated_diagrams", d[0], {"what": d[1], "mode": "prefix in a new interpreter", "op": ops[d[0] - 1] if 0 < d[0] <= len(ops) else None, "alone": d[2], "with_others": d[3]}, "prefix_new_process"))
        # (b) fresh interpreters under other hash seeds
        hs_done = []
        screened = fresh = unconfirmed = 0
        if not vio:
            payload = json.dumps({"scenario": {k: v for k, v in sc.items() if k != "ops"}, "ops": ops}, default=D._default)
            for hs in sc["params"].get("hash_seeds", []):
                was_screened = False
                if hs != "random" and not sc.get("ops") and not os.environ.get("BIOSIM_NO_HASH_SCREEN"):
                    # screen in the long-lived child first; only a difference is re-examined
                    try:
                        log_s = HashChild.get(hs).execute(payload)
                    except RuntimeError as e:
                        res["harness_error"] = f"hash-seed child (PYTHONHASHSEED={hs}): {e}"
                        break
                    execs += 1
                    hs_done.append(hs)
                    if not first_diff(json.loads(json.dumps(ref_log)), log_s):
                        continue
                    screened += 1
                    was_screened = True
                env = dict(os.environ)
                env["PYTHONHASHSEED"] = hs
                try:
                    p = subprocess.run([sys.executable, os.path.join(ROOT, "check"), "C19", "--exec-trace"], input=payload, capture_output=True, text=True, timeout=600, env=env, cwd=ROOT)
                except subprocess.TimeoutExpired:
                    res["harness_error"] = f"fresh interpreter (PYTHONHASHSEED={hs}) timed out"
                    break
                line = [ln for ln in p.stdout.splitlines() if ln.startswith("EXEC-LOG ")]
                if not line:
                    res["harness_error"] = f"fresh interpreter (PYTHONHASHSEED={hs}) gave no log: {p.stdout[-300:]} {p.stderr[-300:]}"
                    break
                log_b = json.loads(line[0][len("EXEC-LOG "):])
                execs += 1
                fresh += 1
                if hs not in hs_done:
                    hs_done.append(hs)
                d = first_diff(json.loads(json.dumps(ref_log)), log_b)
                if d:
                    vio.append(viol(self.ID, "differs_in_fresh_interpreter", d[0], {"what": d[1], "hash_seed": hs, "op": ops[d[0] - 1] if 0 < d[0] <= len(ops) else None, "here": d[2], "fresh": d[3]}, "hash_seed"))
                    break
                if was_screened:
                    unconfirmed += 1
        res["violations"] = vio
        finish(res, w, sc, ops)
        res["log_digest"] = D.digest(ref_log)
        res["case_key"] = res["log_digest"]
        res["nontrivial"] = len(ops) >= 2 and len(w.sd) >= 2 if w.sd is not None else False
        res["stats"]["executions"] = execs
        res["stats"]["unrelated_ops"] = other_ops
        res["stats"]["hash_seeds"] = hs_done
        res["stats"]["fresh"] = fresh + prefix_fresh
        res["stats"]["prefix_fresh"] = prefix_fresh
        res["stats"]["screen_unconfirmed"] = unconfirmed
        res["stats"]["faults"] = {"other_hash_seed_process": len(hs_done), "fresh_interpreter": fresh + prefix_fresh, "unrelated_interleaving": 1 if other_ops else 0}
        return res

    def evidence_extra(self, results):
        return {
            "executions_compared": sum((r.get("stats") or {}).get("executions", 0) for r in results),
            "unrelated_ops_interleaved": sum((r.get("stats") or {}).get("unrelated_ops", 0) for r in results),
            "other_hash_seed_executions": sum(len((r.get("stats") or {}).get("hash_seeds", [])) for r in results),
            "unrelated_prefix_then_scenario_in_a_brand_new_interpreter": sum((r.get("stats") or {}).get("prefix_fresh", 0) for r in results),
            "of_which_in_a_brand_new_interpreter": sum((r.get("stats") or {}).get("fresh", 0) for r in results),
            "screen_differences_not_confirmed_in_a_new_interpreter": sum((r.get("stats") or {}).get("screen_unconfirmed", 0) for r in results),
        }


def exec_trace_main():
    """Child side of (b): read {"scenario", "ops"} from stdin, print the event log."""
    data = json.load(sys.stdin)
    from .. import seams

    seams.install()
    seams.reset_faults()
    plan = None
    if data.get("plan"):
        plan = {}
        for i, widx, net, cfg, oop in data["plan"]:
            plan.setdefault(int(i), []).append((widx, net, cfg, oop))
    log, _w = execute(data["scenario"], data["ops"], plan)
    print("EXEC-LOG " + json.dumps(log))
    return 0


def exec_server_main():
    """Child side of the hash-seed screen: one {"scenario", "ops"} JSON per input line,
    one EXEC-LOG line per scenario; ends at EOF (parent gone)."""
    from .. import seams

    seams.install()
    for line in sys.stdin:
        line = line.strip()
        if not line:
            continue
        data = json.loads(line)
        seams.reset_faults()
        try:
            log, _w = execute(data["scenario"], data["ops"])
        except Exception as e:  # noqa: BLE001
            log = [["harness-exception", repr(e)[:200], None, None]]
        sys.stdout.write("EXEC-LOG " + json.dumps(log) + "\n")
        sys.stdout.flush()
    return 0


MACHINE = C19()
