"""Delta debugging over (ops, arguments, faults, network) while the *same*
(property, invariant, site) violation persists (DESIGN.md §2.8)."""

from __future__ import annotations

import copy

import time

MAX_EVALS = 250
MAX_SECONDS = 150


def minimize(prop, trace, sig):
    from .runner import run_one, sig_of

    sig = tuple(sig)
    evals = [0]
    best = {"trace": copy.deepcopy(trace), "violation": None}

    t_end = time.time() + MAX_SECONDS

    def fails(tr):
        if evals[0] >= MAX_EVALS or time.time() > t_end:
            return False
        evals[0] += 1
        try:
            res = run_one(prop, tr.get("run_seed", 0), tr.get("tier", "quick"), scenario=copy.deepcopy(tr))
        except Exception:  # noqa: BLE001
            return False
        for v in res["violations"]:
            if tuple(sig_of(v)) == sig:
                best["trace"] = copy.deepcopy(res["trace"])
                best["violation"] = v
                return True
        return False

    cur = copy.deepcopy(trace)
    if not fails(cur):
        return None
    cur = copy.deepcopy(best["trace"])

    # 1. ddmin over ops
    ops = list(cur.get("ops") or [])
    n = 2
    while len(ops) >= 2 and evals[0] < MAX_EVALS:
        chunk = max(1, len(ops) // n)
        reduced = False
        for i in range(0, len(ops), chunk):
            cand = ops[:i] + ops[i + chunk :]
            if not cand:
                continue
            tr = dict(cur)
            tr["ops"] = cand
            if fails(tr):
                ops = list(best["trace"]["ops"])
                cur = copy.deepcopy(best["trace"])
                n = max(n - 1, 2)
                reduced = True
                break
        if not reduced:
            if chunk == 1:
                break
            n = min(len(ops), n * 2)
    # single-op removal pass
    i = 0
    while i < len(ops) and len(ops) > 1 and evals[0] < MAX_EVALS:
        cand = ops[:i] + ops[i + 1 :]
        tr = dict(cur)
        tr["ops"] = cand
        if fails(tr):
            ops = list(best["trace"]["ops"])
            cur = copy.deepcopy(best["trace"])
        else:
            i += 1

    # 2. drop scenario-level faults
    for key in ("walk_seed", "reorder_seed"):
        if cur.get(key) is not None:
            tr = copy.deepcopy(cur)
            tr[key] = None
            if fails(tr):
                cur = copy.deepcopy(best["trace"])
    if cur.get("config") is not None:
        tr = copy.deepcopy(cur)
        tr["config"] = None
        if fails(tr):
            cur = copy.deepcopy(best["trace"])

    # 3. simplify arguments
    for i in range(len(cur.get("ops") or [])):
        for key, simple in (("size", None), ("level", None), ("stack", None), ("fail_at", None), ("node", None)):
            op = cur["ops"][i]
            if key in op and op[key] is not simple and op[key] is not None:
                tr = copy.deepcopy(cur)
                if key == "fail_at":
                    del tr["ops"][i][key]
                else:
                    tr["ops"][i][key] = simple
                if fails(tr):
                    cur = copy.deepcopy(best["trace"])

    # 4. simplify the network: replace a function by a constant, drop a regulator
    net = cur["net"]
    for i in range(len(net["funcs"])):
        regs, tt = cur["net"]["funcs"][i]
        if not regs:
            continue
        done = False
        for c in (0, 1):
            tr = copy.deepcopy(cur)
            tr["net"]["funcs"][i] = [[], [c]]
            tr["net"]["free"] = [x for x in tr["net"]["free"] if x != i]
            from .netgen import normalize

            normalize(tr["net"])
            if fails(tr):
                cur = copy.deepcopy(best["trace"])
                done = True
                break
        if done:
            continue
        for j in range(len(regs)):
            regs, tt = cur["net"]["funcs"][i]
            if j >= len(regs) or len(regs) <= 1 or i in cur["net"]["free"]:
                break
            for val in (0, 1):
                tt2 = [tt[idx] for idx in range(len(tt)) if ((idx >> j) & 1) == val]
                regs2 = regs[:j] + regs[j + 1 :]
                tr = copy.deepcopy(cur)
                tr["net"]["funcs"][i] = [regs2, tt2]
                from .netgen import normalize

                normalize(tr["net"])
                if fails(tr):
                    cur = copy.deepcopy(best["trace"])
                    break
    return {"trace": best["trace"], "violation": best["violation"], "evals": evals[0]}
