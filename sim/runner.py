"""Batch runner: seeded search over runs, minimisation, replay verification,
known findings, evidence (DESIGN.md §2.8–2.10).

exit 0  property held on everything explored (KNOWN-FINDING lines possible)
exit 1  at least one `VIOLATION property=<id> replay=<path>` line
exit 2  harness error (never disguised as a verdict)
"""

from __future__ import annotations

import argparse
import concurrent.futures as cf
import faulthandler
import hashlib
import importlib
import json
import multiprocessing as mp
import os
import subprocess
import sys
import time
import traceback

ROOT = os.path.dirname(os.path.dirname(os.path.abspath(__file__)))
EVIDENCE_DIR = os.path.join(ROOT, "evidence")
REPLAY_DIR = os.environ.get("BIOSIM_REPLAY_DIR") or os.path.join(ROOT, "replays")
KNOWN = os.path.join(ROOT, "known_findings.json")
FAULT_DIR = "/tmp/biosim-faults"  # faulthandler dumps of crashed workers (diagnosis only)

PROPS = ["C01", "C03", "C04", "C05", "C06", "C08", "C12", "C13", "C14", "C15", "C16", "C19", "C20"]

# (runs, wall cap seconds) per tier; a batch ends at whichever comes first.
TIERS = {
    # a batch ends at whichever comes first: the run count or the wall cap (seconds)
    "quick": {
        "default": (45000, 40),
        "C01": (10000, 45),
        "C05": (13000, 50),
        "C06": (40000, 60),
        "C08": (8000, 75),
        "C12": (10000, 50),
        "C13": (15000, 45),
        "C14": (11000, 60),
        "C15": (2200, 85),
        "C16": (8000, 50),
        "C19": (2400, 80),
        "C20": (34000, 60),
    },
    "thorough": {"default": (400000, 1200), "C15": (25000, 1500), "C19": (30000, 1200)},
}
CHUNK = {"default": 12, "C15": 2, "C19": 4}
TASK_TIMEOUT = 900  # wall guard per chunk: only for a worker stuck inside a C extension


def run_seed_of(prop, batch_seed, i):
    h = hashlib.sha256(f"{prop}/{batch_seed}/{i}".encode()).digest()
    return int.from_bytes(h[:6], "big")


def load_machine(prop):
    mod = importlib.import_module(f"sim.machines.{prop.lower()}")
    return mod.MACHINE


# ------------------------------------------------------------------- workers
def worker_init():
    # clingo prints "domRec ignored" warnings to the C-level stderr
    try:
        devnull = os.open(os.devnull, os.O_WRONLY)
        os.dup2(devnull, 2)
    except OSError:
        pass
    os.makedirs(FAULT_DIR, exist_ok=True)
    faulthandler.enable(file=open(os.path.join(FAULT_DIR, f"{os.getpid()}.log"), "w"))


_WORKER_HISTORY = []  # (run_seed, tier) of the runs this process executed before, in order


def run_one(prop, run_seed, tier, scenario=None):
    from . import seams

    seams.install(probe=not os.environ.get("BIOSIM_NO_PROBE"))
    seams.reset_faults()
    m = load_machine(prop)
    if scenario is not None and scenario.get("worker_history"):
        # the violation was observed after these runs had been executed in the same worker
        # process ("what other diagrams were built earlier in the same process"): C19 always
        # replays with it; the other checks only when the scenario alone does not reproduce
        # (state that the library keeps per process instead of per diagram)
        hist = scenario["worker_history"]
        for hseed, htier in hist:
            try:
                seams.reset_faults()
                m.run(m.gen_scenario(hseed, htier))
            except Exception:  # noqa: BLE001
                pass
        seams.reset_faults()
    sc = scenario if scenario is not None else m.gen_scenario(run_seed, tier)
    res = m.run(sc)
    if scenario is None:
        if res.get("violations") and res.get("trace") is not None and _WORKER_HISTORY:
            res["trace"]["worker_history"] = list(_WORKER_HISTORY)
        _WORKER_HISTORY.append((run_seed, tier))
    return res


def slim(res, keep_trace):
    out = {k: res.get(k) for k in ("property", "run_seed", "violations", "anomalies", "budget_exceeded", "harness_error", "nontrivial", "case_key", "stats", "log_digest", "state_digest")}
    if keep_trace or res.get("violations") or res.get("budget_exceeded") or res.get("anomalies"):
        out["trace"] = res.get("trace")
    st = out.get("stats") or {}
    st.pop("work_by_op", None) if not keep_trace else None
    return out


def chunk_task(prop, seeds, tier, keep_first):
    results = []
    for j, s in enumerate(seeds):
        try:
            res = run_one(prop, s, tier)
        except Exception as e:  # noqa: BLE001  harness exception (outside an op executor)
            res = {"property": prop, "run_seed": s, "violations": [], "anomalies": [], "budget_exceeded": [], "harness_error": f"{type(e).__name__}: {e}\n{traceback.format_exc()[-1500:]}", "nontrivial": False, "case_key": None, "stats": {}}
        results.append(slim(res, keep_first and j == 0))
    try:
        from . import seams

        reach = [t for t, hit in seams.reach_tags().items() if hit]
    except Exception:  # noqa: BLE001
        reach = []
    return {"results": results, "reach": reach}


def minimize_task(prop, trace, sig):
    from .minimize import minimize

    worker_quiet()
    return minimize(prop, trace, sig)


def worker_quiet():
    pass


def _clean_fault_logs():
    try:
        for f in os.listdir(FAULT_DIR):
            p = os.path.join(FAULT_DIR, f)
            if os.path.getsize(p) == 0:
                os.unlink(p)
    except OSError:
        pass


# ------------------------------------------------------------ known findings
def load_known():
    try:
        with open(KNOWN) as fh:
            return json.load(fh)
    except (OSError, ValueError):
        return {"findings": [], "fixed": []}


def sig_of(v):
    return (v["property"], v["invariant"], v.get("site"))


def match_known(v, known):
    for f in known.get("findings", []):
        if f.get("status") != "open":
            continue
        if f["property"] != v["property"] or f["invariant"] != v["invariant"]:
            continue
        if f.get("site") is not None and f["site"] != v.get("site"):
            continue
        if f.get("detail_has"):
            blob = json.dumps(v.get("detail"), sort_keys=True, default=str)
            if not all(t in blob for t in f["detail_has"]):
                continue
        return f
    return None


# -------------------------------------------------------------------- replay
def replay_file(prop, path, as_json=False):
    with open(path) as fh:
        data = json.load(fh)
    sc = data["scenario"] if "scenario" in data else data
    res = run_one(prop, sc.get("run_seed", 0), sc.get("tier", "quick"), scenario=sc)
    if as_json:
        print("REPLAY-JSON " + json.dumps({"violations": res["violations"], "harness_error": res["harness_error"], "budget_exceeded": res["budget_exceeded"], "log_digest": res.get("log_digest")}, default=str))
    if res["harness_error"]:
        print("HARNESS-ERROR", res["harness_error"])
        return 2
    if res["violations"]:
        v = res["violations"][0]
        known = load_known()
        f = match_known(v, known)
        if f is not None:
            print(f"KNOWN-FINDING: property={prop} {f['what']}")
            print(json.dumps(v, indent=1, default=str)[:3000])
            return 0
        print(f"VIOLATION property={prop} replay={path}")
        print(json.dumps(v, indent=1, default=str)[:3000])
        return 1
    print(f"replay of {path}: no violation")
    return 0


def verify_fresh(prop, path, sig):
    """Replay in a fresh interpreter; require the identical violation signature.  For a
    machine whose property *is* reproducibility (C19) the violating behaviour is by nature
    not exactly repeatable: any violation of the property on replay counts, and the replay
    is attempted up to 3 times."""
    loose = bool(getattr(load_machine(prop), "NONDETERMINISTIC_REPLAY", False))
    last = None
    for _ in range(3 if loose else 1):
        ok, info = _verify_fresh_once(prop, path, sig, loose)
        if ok:
            return ok, info
        last = info
    return False, last


def _verify_fresh_once(prop, path, sig, loose):
    env = dict(os.environ)
    env["PYTHONHASHSEED"] = "0"
    try:
        p = subprocess.run([sys.executable, os.path.join(ROOT, "check"), prop, "--replay", path, "--json"], capture_output=True, text=True, timeout=600, env=env, cwd=ROOT)
    except subprocess.TimeoutExpired:
        return False, "timeout"
    for line in p.stdout.splitlines():
        if line.startswith("REPLAY-JSON "):
            d = json.loads(line[len("REPLAY-JSON "):])
            if d["violations"] and (loose or tuple(sig_of(d["violations"][0])) == tuple(sig)):
                return True, d
            return False, d
    return False, p.stdout[-500:] + p.stderr[-500:]


# --------------------------------------------------------------------- batch
def batch(prop, tier, batch_seed, runs=None, wall=None, workers=None, write_evidence=True, quiet=False):
    t0 = time.time()
    batch._n_min = 0
    m = load_machine(prop)
    tcfg = TIERS[tier]
    d_runs, d_wall = tcfg.get(prop, tcfg["default"])
    runs = d_runs if runs is None else runs
    wall = d_wall if wall is None else wall
    workers = workers or int(os.environ.get("BIOSIM_WORKERS") or 0) or min(16, os.cpu_count() or 1)
    chunk = CHUNK.get(prop, CHUNK["default"])
    print(f"biosim property={prop} tier={tier} VERIF_SEED={batch_seed} runs<={runs} wall<={wall}s workers={workers} src={os.environ.get('BIOBALM_SRC', '/repo')}", flush=True)

    ctx = mp.get_context("fork")
    ex = cf.ProcessPoolExecutor(max_workers=workers, mp_context=ctx, initializer=worker_init)
    results = []
    reach = set()
    harness_errors = []
    next_i = 0
    pending = {}
    first = True
    try:
        while True:
            while len(pending) < workers * 2 and next_i < runs and (time.time() - t0) < wall:
                seeds = [run_seed_of(prop, batch_seed, i) for i in range(next_i, min(runs, next_i + chunk))]
                next_i += len(seeds)
                fut = ex.submit(chunk_task, prop, seeds, tier, True)
                pending[fut] = (time.time(), seeds)
                first = False
            if not pending:
                break
            done, _ = cf.wait(list(pending), timeout=5, return_when=cf.FIRST_COMPLETED)
            for fut in done:
                _t, seeds = pending.pop(fut)
                try:
                    r = fut.result()
                    results.extend(r["results"])
                    reach.update(r["reach"])
                except Exception as e:  # noqa: BLE001
                    harness_errors.append(f"worker failed on seeds {seeds}: {type(e).__name__}: {e}")
            now = time.time()
            for fut, (ts, seeds) in list(pending.items()):
                if now - ts > TASK_TIMEOUT:
                    harness_errors.append(f"wall guard: chunk with seeds {seeds} exceeded {TASK_TIMEOUT}s")
                    pending.pop(fut)
            if harness_errors and any("wall guard" in h or "worker failed" in h for h in harness_errors):
                break
    finally:
        for p in list(getattr(ex, "_processes", {}).values()):
            if harness_errors:
                try:
                    p.terminate()
                except Exception:  # noqa: BLE001
                    pass
        ex.shutdown(wait=not harness_errors, cancel_futures=True)

    _clean_fault_logs()
    results.sort(key=lambda r: r["run_seed"])
    for r in results:
        if r.get("harness_error"):
            harness_errors.append(f"run_seed={r['run_seed']}: {r['harness_error']}")

    # ---- violations: group by signature, minimise + verify one representative each
    known = load_known()
    by_sig = {}
    for r in results:
        for v in r["violations"]:
            by_sig.setdefault(sig_of(v), []).append((r, v))
    violation_lines = []
    known_lines = {}
    unverified = []
    os.makedirs(REPLAY_DIR, exist_ok=True)
    for sig, items in sorted(by_sig.items(), key=lambda kv: str(kv[0])):
        # known-finding matching is per violation (detail may matter)
        unknown_items = []
        for r, v in items:
            f = match_known(v, known)
            if f is not None:
                known_lines.setdefault(f["id"], [f, 0])[1] += 1
            else:
                unknown_items.append((r, v))
        if not unknown_items:
            continue
        r, v = unknown_items[0]
        trace = r["trace"]
        hist = None
        if not getattr(m, "NONDETERMINISTIC_REPLAY", False):
            hist = trace.pop("worker_history", None)
        mini = None
        n_min = getattr(batch, "_n_min", 0)
        if not os.environ.get("BIOSIM_NO_MINIMIZE") and n_min < 3 and not trace.get("worker_history"):
            batch._n_min = n_min + 1
            try:
                with cf.ProcessPoolExecutor(max_workers=1, mp_context=ctx, initializer=worker_init) as ex1:
                    mini = ex1.submit(minimize_task, prop, trace, list(sig)).result(timeout=600)
            except Exception as e:  # noqa: BLE001
                print(f"note: minimisation failed ({type(e).__name__}: {e}); using the unminimised trace", flush=True)
        final = mini["trace"] if mini else trace
        path = os.path.join(REPLAY_DIR, f"{prop}-{r['run_seed']}-{v['invariant']}.json")
        from .machine import save_json

        save_json(path, {"property": prop, "violation": (mini or {}).get("violation", v), "minimised": bool(mini), "minimise_evals": (mini or {}).get("evals"), "original_ops": len(trace.get("ops") or []), "scenario": final})
        ok, info = verify_fresh(prop, path, sig)
        if not ok and mini:
            # fall back to the unminimised trace
            save_json(path, {"property": prop, "violation": v, "minimised": False, "scenario": trace})
            ok, info = verify_fresh(prop, path, sig)
        if not ok and hist:
            # not reproducible from the scenario alone: replay it after the runs that the same
            # worker process had executed before it (deterministic: one process, same order)
            trace_h = dict(trace)
            trace_h["worker_history"] = hist
            save_json(path, {"property": prop, "violation": v, "minimised": False, "needs_process_history": True, "scenario": trace_h})
            ok, info = verify_fresh(prop, path, sig)
        if ok:
            violation_lines.append((sig, path, len(unknown_items), (mini or {}).get("violation", v)))
        else:
            unverified.append((sig, path, info))

    wall_s = time.time() - t0
    # ---- report
    for fid, (f, cnt) in sorted(known_lines.items()):
        print(f"KNOWN-FINDING: property={prop} {f['what']} [{fid}; seen in {cnt} run(s)]")
    for sig, path, cnt, v in violation_lines:
        print(f"VIOLATION property={prop} replay={path}")
        print(f"  invariant={sig[1]} site={sig[2]} runs={cnt} detail={json.dumps(v.get('detail'), default=str)[:600]}")
    for sig, path, info in unverified:
        harness_errors.append(f"replay of {path} did not reproduce {sig}: {str(info)[:300]}")
    ev = build_evidence(prop, m, tier, batch_seed, results, wall_s, len(violation_lines), known_lines, harness_errors, workers)
    from .seams import TAGS

    ev["coverage"]["reach_probes"] = {t: (t in reach) for t in sorted(TAGS)}
    ev["coverage"]["reach_probe_measure"] = "anchored mechanisms (function + distinctive source line, matched by text) executed at least once in some worker of this batch (sys.monitoring LINE events)"
    if write_evidence:
        os.makedirs(EVIDENCE_DIR, exist_ok=True)
        with open(os.path.join(EVIDENCE_DIR, f"{prop}.json"), "w") as fh:
            json.dump(ev, fh, indent=1, sort_keys=True, default=str)
            fh.write("\n")
    cov = ev["coverage"]
    print(f"runs={cov['evaluations']} nontrivial_distinct={cov['distinct_nontrivial']} ops={cov['ops_executed']} sim_time={cov['simulated_time_units']} faults={cov['faults_fired']} anomalies={cov['anomalies']} budget_exceeded={cov['budget_exceeded']} wall={wall_s:.1f}s", flush=True)
    if harness_errors:
        for h in harness_errors[:10]:
            print("HARNESS-ERROR", h[:1500])
        return 2 if not violation_lines else 1
    if violation_lines:
        return 1
    if not results:
        print("HARNESS-ERROR no runs completed")
        return 2
    return 0


def build_evidence(prop, m, tier, batch_seed, results, wall_s, nviol, known_lines, harness_errors, workers):
    n = len(results)
    keys = set()
    nontrivial_keys = set()
    ops = 0
    work = 0
    faults = {}
    states = set()
    inter = set()
    fam = {}
    anomalies = 0
    budget = 0
    work_by_kind = {}
    samples = []
    for r in results:
        st = r.get("stats") or {}
        ops += st.get("ops", 0)
        work += st.get("work", 0)
        for k, c in (st.get("faults") or {}).items():
            faults[k] = faults.get(k, 0) + c
        if r.get("state_digest"):
            states.add(r["state_digest"])
        ks = st.get("op_kinds") or []
        for i in range(len(ks)):
            inter.add(tuple(ks[i : i + 3]))
        fam[st.get("family")] = fam.get(st.get("family"), 0) + 1
        anomalies += len(r.get("anomalies") or [])
        budget += len(r.get("budget_exceeded") or [])
        if r.get("case_key") is not None:
            keys.add(r["case_key"])
            if r.get("nontrivial"):
                nontrivial_keys.add(r["case_key"])
        if r.get("trace") is not None and len(samples) < 3 and r.get("nontrivial"):
            tr = r["trace"]
            samples.append({"run_seed": r["run_seed"], "net": tr.get("net"), "config": tr.get("config"), "walk_seed": tr.get("walk_seed"), "reorder_seed": tr.get("reorder_seed"), "ops": tr.get("ops"), "outcomes": st.get("op_kinds"), "params": tr.get("params")})
    if not samples:
        for r in results:
            if r.get("trace") is not None:
                tr = r["trace"]
                samples.append({"run_seed": r["run_seed"], "net": tr.get("net"), "ops": tr.get("ops")})
                break
    extra = m.evidence_extra(results) if hasattr(m, "evidence_extra") else {}
    cov = {
        "evaluations": n,
        "distinct_nontrivial": len(nontrivial_keys),
        "rule": getattr(m, "RULE", "one evaluation = one seeded run (network + config + op/fault history) executed on the real library under the simulator; distinct = distinct event-log digest (ops, outcome classes, result digests, work units, fault points); non-trivial per the machine's classify()"),
        "samples": samples or [{"note": "no sample"}],
        "runs_per_hour": int(n / wall_s * 3600) if wall_s > 0 else 0,
        "seeds_per_hour": int(n / wall_s * 3600) if wall_s > 0 else 0,
        "ops_executed": ops,
        "simulated_time_units": work,
        "simulated_time_measure": "loop back-edges + Python-level calls executed in biobalm code (sys.monitoring)",
        "faults_fired": faults,
        "distinct_final_states": len(states),
        "distinct_interleavings_len3": len(inter),
        "interleaving_measure": "distinct windows of <=3 consecutive (op kind:outcome class) pairs",
        "network_families": {str(k): v for k, v in fam.items()},
        "anomalies": anomalies,
        "budget_exceeded": budget,
        "known_findings_seen": {fid: cnt for fid, (f, cnt) in known_lines.items()},
        "harness_errors": len(harness_errors),
        "workers": workers,
        "real_vs_stub": {
            "real": ["biobalm (all modules, from BIOBALM_SRC)", "clingo", "biodivine_aeon", "networkx", "pickle"],
            "wrapped_pass_through_unless_fault_armed": ["clingo.Control (SimControl)"],
            "replaced": ["random module attribute of biobalm._sd_attractors.attractor_candidates (faithful mode = shipped seed 123)"],
            "absent": ["pint"],
        },
    }
    cov.update(extra)
    return {
        "property_id": prop,
        "tier": tier,
        "seed": int(batch_seed),
        "level": m.LEVEL,
        "coverage": cov,
        "assumptions": getattr(m, "ASSUMPTIONS", []) + [
            "bounded to networks of <= 8 variables (explicit-state oracle)",
            "sampling: a clean batch is evidence about the histories reached, not a proof",
            "reference model (sim/refmodel.py), CPython, clingo and biodivine_aeon binaries are trusted",
        ],
        "wall_s": round(wall_s, 2),
        "violations": nviol,
    }


def main(argv=None):
    ap = argparse.ArgumentParser(prog="check")
    ap.add_argument("prop")
    ap.add_argument("--tier", default=os.environ.get("VERIF_TIER", "quick"), choices=["quick", "thorough"])
    ap.add_argument("--seed", type=int, default=None)
    ap.add_argument("--runs", type=int, default=None)
    ap.add_argument("--wall", type=float, default=None)
    ap.add_argument("--workers", type=int, default=None)
    ap.add_argument("--replay", default=None)
    ap.add_argument("--json", action="store_true")
    ap.add_argument("--no-evidence", action="store_true")
    ap.add_argument("--exec-trace", action="store_true")
    ap.add_argument("--exec-server", action="store_true")
    ap.add_argument("--digests", type=int, default=None)
    ap.add_argument("--props", default=None)
    ap.add_argument("--all", action="store_true")
    ap.add_argument("--one", type=int, default=None, help="execute the single run with this run seed and print its result")
    a = ap.parse_args(argv)
    prop = a.prop.upper()
    if prop == "SELFTEST-DETERMINISM":
        from .selftest import determinism

        return determinism(a)
    if prop == "SELFTEST-MUTANTS":
        from .selftest import mutants

        return mutants(a)
    if prop not in PROPS:
        print(f"unknown property {prop}; claimed: {PROPS}")
        return 2
    if a.digests is not None:
        from .selftest import digests_main

        return digests_main(prop, a.digests, a.workers or 1)
    if a.exec_server:
        from .machines.c19 import exec_server_main

        worker_init()
        return exec_server_main()
    if a.exec_trace:
        from .machines.c19 import exec_trace_main

        worker_init()
        return exec_trace_main()
    if a.replay:
        worker_init() if not a.json else None
        return replay_file(prop, a.replay, as_json=a.json)
    seed = a.seed if a.seed is not None else int(os.environ.get("VERIF_SEED", "0") or 0)
    if a.one is not None:
        res = run_one(prop, a.one, a.tier)
        print(json.dumps(res, indent=1, default=str)[:20000])
        return 1 if res["violations"] else 0
    return batch(prop, a.tier, seed, a.runs, a.wall, a.workers, write_evidence=not a.no_evidence)
