"""biosim: deterministic simulation with fault injection for jcrozum/biobalm.

See /verif/DESIGN.md.  Everything in here is a pure function of a seed (or of
an explicit replay file) and the biobalm source tree pointed to by BIOBALM_SRC
(default /repo).
"""
