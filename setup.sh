#!/bin/bash
# MANIFEST.setup_cmd: offline, from files on disk only.
set -e
cd "$(dirname "$0")"
/venv/bin/python - <<'PY'
import sys
sys.path.insert(0, "/repo")
import clingo, biodivine_aeon, networkx  # noqa
import biobalm  # noqa
print("imports ok:", biobalm.__file__)
PY
/venv/bin/python -m compileall -q sim > /dev/null
mkdir -p evidence replays
test -s corpus/maa.json || /venv/bin/python tools/mine_maa.py
test -s corpus/maa_order_sensitive.json || /venv/bin/python tools/mine_sensitive.py 2>/dev/null
echo "setup ok"
